#!/usr/bin/env python3
"""Regenerates MANIFEST.json from the table below (kept in one place so the manifest stays valid)."""
import json

CLAIMED = {
    "C01": dict(
        text="Bounded symbolic execution of the real BitLengthSet/Operator code: each condition's decision tree is "
        "exhausted by the solver, so min/max/fixed_length/residues/is_aligned_at equal the set-theoretic oracle for "
        "EVERY non-negative leaf magnitude (unbounded integers) and, in c01.count, for EVERY repetition count k; "
        "scaffolding (tree shapes of depth <= 3, small k, alignments, divisors up to 64, residue classes) is "
        "enumerated and stated. The count reduction is justified by QF_BV sumset lemmas discharged by z3 (cvc5 "
        "cross-check) for d <= 12/16. Numerical expansion is checked choice-exhaustively on leaves 0..9. Also: consecutive "
        "paddings for every pair of alignments from {2,3,4,6,8} with an unbounded leaf; operand immutability incl. "
        "augmented assignment on aliases; the same operation applied to look-alike sets (equal min/max/residues mod 32) in "
        "one process; concrete witnesses with leaves ~2**60 (machine-float slips are invisible to the engine).",
        note="Trusts CrossHair's models of int arithmetic/sets (every counterexample is replayed in plain CPython; "
        "non-reproducing ones are counted as spurious) and z3. Outside: depth > 3, leaf cardinality > 3, general "
        "lemma for d > 16, negative leaves.",
        technique="symbolic execution (CrossHair/z3) of real code, path-tree exhaustion + QF_BV lemmas",
        ref="3/C01",
    ),
    "C02": dict(
        text="Symbolic execution of the real type constructors: array capacity is a symbolic integer covering every "
        "value up to 2**64 (prefix-width boundaries 2**8/2**16/2**32 and the rejection at 2**64 are inside one "
        "exhausted condition), variant count symbolic up to 2**64 through the real static tag helper, extents "
        "64*q+r symbolic, parametrised composite shapes with symbolic capacities vs an interval oracle written from "
        "the Specification; exact set equality (expansion, residues mod 8/16/32/64/3/7) for the shape catalogue with "
        "small capacities as choice variables; every sequence of 3-4 structure members / 2-3 union variants from 11 / 12 "
        "member types (exact sets), unions with constants at the tag-width boundaries, members' own sets re-checked "
        "after the container was expanded.",
        note="Shapes are scaffolding (catalogue in vp/types.py + parametrised shapes, depth <= 3). math.log2 realises "
        "its argument, so the engine enumerates the <= 65 bit lengths of a capacity rather than reasoning about them "
        "symbolically. Trusts CrossHair int model + z3; counterexamples are replayed concretely.",
        technique="symbolic execution (CrossHair/z3) of real constructors vs Specification oracle, path-tree exhaustion",
        ref="3/C02",
    ),
    "C03": dict(
        text="Symbolic execution of the real reader on in-memory definitions generated from sequences of line EVENTS (field, "
        "array field, constant, padding, documented field, blank, detached comment, directive) for messages and services, "
        "structures and unions, sealed-first / sealed-last / @extent, with and without header docs and @deprecated. An "
        "oracle computes the expected model from the event list; every text is read in up to 7 formatting variants (LF/CRLF "
        "x final newline, wide blanks and trailing blanks, tabs, extra blank lines and detached comments) which must all give "
        "that model, and the model rendered to canonical DSDL must read back equal. Constant value (every int64), array "
        "capacity and extent are symbolic through identifier injection (c03.values); a constant of 6 types x 5 value forms over small p/q (non-dyadic, beyond 2**53, > 17 digits) rendered with str() must read back with exactly the same value (c03.const-roundtrip); event sequences are choice-exhaustive "
        "up to 3 (quick) / 4 (thorough) events per section.",
        note="Event sequences and formatting variants are enumerated scaffolding / choice variables (the grammar needs concrete "
        "text); the solver-relevant variables are the values. Nested composite fields are covered under C09, non-ASCII "
        "comments are outside.",
        technique="symbolic execution (CrossHair/z3) of real reader vs event-list oracle; symbolic values, choice-exhaustive layouts",
        ref="3/C03",
    ),
    "C04": dict(
        text="Symbolic execution of the real grammar visitor and expression operators: an expression TREE is rendered "
        "to text (minimal parentheses by the Specification's precedence table, without blanks, and fully parenthesised) "
        "and read by the real reader with its identifiers resolved to symbolic values; the result must equal an "
        "independent tree evaluator (exact Fractions) or both must be 'undefined'. Integer atoms are unbounded except "
        "in divisor/exponent/bitwise positions ([-2,2]); all type-correct operator pairs (depth 2), unary interplay, "
        "seeded depth-3 trees, operand-kind x operator definedness, set algebra, literal spellings and the value sinks "
        "(constant, capacity, @assert, @print, @extent); string comparison under NFC for concatenated pieces (literal and "
        "escape spellings).",
        note="Identifier injection and @capture are harness-side (subclass of the real DataTypeBuilder). "
        "Grammar.parse on concrete text runs natively (tracing off) - same real code, not traced. Non-integer "
        "exponents are outside the claim (pydsdl uses floats there).",
        technique="symbolic execution (CrossHair/z3) of real parser+evaluator vs tree oracle, path-tree exhaustion",
        ref="3/C04",
    ),
    "C05": dict(
        text="Symbolic execution of the real constructors, name checker, directive handlers and finalize on in-memory "
        "definitions. Numeric rules have the number symbolic and unbounded: version (major, minor), fixed port-ID x "
        "subject/service x standard/vendor root x allow flag, array capacity in the three bracket forms, @extent; accepted "
        "<=> the rule, both through the constructors and through text. check_name is run on a symbolic str of length <= 1 "
        "(exhausted; 2 exhausted in the thorough tier), and a z3 regular-language obligation shows that the live reserved "
        "patterns denote the Specification's list over [a-z0-9_]{1,12} (24 thorough). Structural rules: 45 violations and 4 "
        "benign edits applied singly and in pairs at 4 positions to valid struct/union/delimited/deprecated skeletons as "
        "message, request and response (choice-exhaustive); bit widths 0..70 x 10 keywords; 64 reserved/near-miss words x "
        "16 letter-case patterns in 5 naming positions; every rejection must be an InvalidDefinitionError.",
        note="Skeletons, violation list and word list are scaffolding. Error-message formatting is stubbed when an argument "
        "is symbolic. One defect found and repaired (a name containing U+212A was accepted).",
        technique="symbolic execution (CrossHair/z3) of real rule checks vs rule oracle + z3 regex-equivalence lemma",
        ref="3/C05",
    ),
    "C06": dict(
        text="Symbolic execution of the real serialize/deserialize: per condition a catalogue type, a seeded template "
        "value (array lengths, union variants) and up to 2 (quick) / 3 (thorough) integer leaves made symbolic over three "
        "times their type's range; serialize must equal the Specification encoder O-SERDES (stream as one integer), the "
        "length must be in the bit length set, the round trip must return the cast-mode image, delimiter-header forms "
        "agree. Byte/utf8 payloads are symbolic bytes/str of 0..4 units. Defaults and relaxed forms are checked "
        "choice-exhaustively; floats on a fixed list (C boundary). E3: the bit writer's source is translated to SMT and "
        "write_bits / align_to are shown to set exactly bits [o, o+n) := v mod 2**n for every v < 2**72 and every buffer "
        "content, per offset 0..8 (23 thorough) x width (20 widths; 1..64 thorough) x buffer length. Twins (equal-comparing, "
        "structurally different composites) are serialised in one process.",
        note="The bit writer's slow path tests one bit at a time, so a symbolic leaf costs 2**bits paths; leaves wider "
        "than 16 bits stay concrete in the quick tier. O-SERDES was validated against the real codec on 8400 random "
        "cases during development. Shapes outside the catalogue are outside the claim.",
        technique="symbolic execution (CrossHair/z3) of real codec vs arithmetic wire-format oracle",
        ref="3/C06",
    ),
    "C07": dict(
        text="Symbolic execution of the real deserialize on a SYMBOLIC byte string of fixed length (0..3 bytes for "
        "byte-aligned catalogue shapes, 0..1 for shapes with sub-byte fields / nested delimited members): same value or "
        "same rejection as the Specification decoder O-SERDES, only SerDesError/ValueError escape, accepted objects are "
        "fixed points, zero extension and symbolic trailing junk change nothing. Every prefix x single-bit corruption of "
        "valid representations is covered choice-exhaustively (also for byte/utf8 arrays inside delimited objects followed by "
        "non-zero data). E3: the bit reader's source is translated to SMT and read_bits is shown to return data bits "
        "[o, o+min(n, available)) with zeros beyond data and limit, for every buffer content, per offset x width x data "
        "length x sub-reader limit; bounded_subreader / remaining_bits bookkeeping. Twins decoded in one process.",
        note="The reader's slow path ORs single bits (CrossHair realises `|`), which costs 2**bits paths; hence the small "
        "length bounds for sub-byte shapes. Float fields are excluded (struct.unpack is a C boundary).",
        technique="symbolic execution (CrossHair/z3) of real decoder on symbolic bytes vs arithmetic oracle",
        ref="3/C07",
    ),
    "C08": dict(
        text="Symbolic execution of the real iterate_fields_with_offsets / enumerate_elements_with_offsets with a SYMBOLIC base "
        "offset set {8*q + r} (q unbounded, r in 0..7 scaffolding) and two-element bases {8*q1+r1, 8*q2+r2}: every field is "
        "yielded once, in order, and its offset's min, max and residues mod 8/16/32/64 equal the Specification layout "
        "oracle's start positions shifted by 8*q; exact expanded-set equality on 8 concrete single- and multi-valued bases "
        "per shape. `_offset_` is captured through the real reader before every field / after the last one of structures, "
        "at every position of unions (earlier use must be rejected), and at one choice position per section of services; "
        "T._bit_length_ and T._extent_ of a dependency equal the API values and the oracle.",
        note="Shapes are scaffolding (8 offset-specific shapes, the shared catalogue, seeded random shapes); shapes with "
        "nested variable-length members do not exhaust with a symbolic base (reported PARTIAL) and are decided on concrete "
        "bases only. `_offset_` conditions are concrete text run natively (choice-exhaustive).",
        technique="symbolic execution (CrossHair/z3) of real offset iteration on symbolic base offsets vs layout oracle",
        ref="3/C08",
    ),
    "C09": dict(
        text="Symbolic execution of the real DataTypeBuilder.resolve_versioned_data_type with SYMBOLIC versions (every M.m in "
        "0..255 x 0..255) for 14 reference spellings (relative, absolute, other namespace, other root, letter-case variants, "
        "missing) against 9 lookup definitions, two consecutive resolutions on one builder: the result is exactly the "
        "definition with that full name and version (equal to reading it on its own), a case-only mismatch is a "
        "DataTypeNameCollisionError, everything else UndefinedDataTypeError. Choice-exhaustive on the real reader: every "
        "subset of 8 reference edges over 4 definitions (chains, diamonds, two versions of one name, self reference, cycles) "
        "x target orders x relative/absolute references x an innocent namesake of one definition in another directory - "
        "accepted <=> an independent resolution oracle, never RecursionError; direct+transitive = closure; nested types "
        "equal the standalone reading; a second read returns the identical object; three references to one type with one "
        "of 6 spellings each.",
        note="Definitions are in-memory (real DSDLDefinition.read / _namespace_reader); directory-level lookup is C10's. "
        "Graph shapes are choice variables over concrete text (run natively).",
        technique="symbolic execution (CrossHair/z3) of the real resolver with symbolic versions; choice-exhaustive graphs vs oracle",
        ref="3/C09",
    ),
    "C10": dict(
        text="Symbolic execution of the real ordering (file_sort / get_definition_ordering_rank) on three definitions and on "
        "three composite types whose versions are SYMBOLIC (every M.m in 0..255): the output is a permutation sorted by name, "
        "then major and minor version, newest first. Choice-exhaustive on scratch directory trees with the real "
        "read_namespace / read_files under an environment stub that permutes Path.rglob results and set iteration (5 "
        "orders): exactly one composite per .dsdl/.uavcan file of the root (none missing, duplicated or taken from lookup "
        "directories), sorted; identical models for 6 spellings of the root x 10 spellings of the lookup argument (absolute, "
        "relative to cwd, str, via symlink, with .., duplicated, mixed spellings of one directory); read_files for every "
        "subset of 1..3 of 7 targets x orders x spellings: direct = requested, transitive = rest of the closure, disjoint, "
        "sorted, types equal to read_namespace's; 21 layouts of root/lookup directories x collision flag: rejected exactly "
        "for nesting (depth 1..3, either argument order, also inside a same-named directory) or same name ignoring case when collisions are disallowed.",
        note="The real hash seed and directory enumeration order are MODELLED by the stub, not varied. Everything except the "
        "ordering conditions is concrete file-system input (choice variables, real code run natively): solver leverage "
        "is confined to c10.sort.",
        technique="symbolic execution (CrossHair/z3) of real ordering on symbolic versions; choice-exhaustive trees under an order-permuting stub",
        ref="3/C10",
    ),
    "C11": dict(
        text="Symbolic execution of the real cross-definition checks on real Structure/Delimited/Service objects: "
        "majors, minors, port-IDs (present/absent) and extents are symbolic over their whole legal ranges; accepted "
        "<=> the rule as stated in C11, for every pair (collision rule, pairwise minor rule, both argument orders) "
        "and for the grouping function on 2-3 definitions (also with members of one group separated by another definition).",
        note="Kinds/names/sealing are enumerated scaffolding; majors in the grouping conditions come from {0,1,2,255} "
        "because the code keys a dict by them (realisation). Which lists the reader passes to these functions is "
        "covered under C19, not here.",
        technique="symbolic execution (CrossHair/z3) of real functions vs rule oracle, path-tree exhaustion",
        ref="3/C11",
    ),
    "C12": dict(
        text="Symbolic execution of the real Constant constructor: the initializer is an UNBOUNDED symbolic integer "
        "(or n/den with unbounded n, den in {2,3,5,7,10, 2**60, 2**53+1} - the last two with near-integer concrete witnesses, as float() is modelled over the reals; or largest-finite + n/den for floats; or a string of 0..2 "
        "symbolic characters) for every width 1..64 x signedness x cast mode; accepted <=> the Specification's range "
        "rule and the stored value equals the initializer exactly; 23 listed initializer strings (lone surrogates, Latin-1, "
        "combining marks) for six types, because str.encode is a C boundary where the engine realises.",
        note="Denominators are concrete (symbolic gcd forks without bound). Error-message formatting is stubbed "
        "(template returned un-interpolated when an argument is symbolic). Text-level path (`int7 K = a`) is covered "
        "under C04/C05 sinks.",
        technique="symbolic execution (CrossHair/z3) of real constructor vs range oracle, path-tree exhaustion",
        ref="3/C12",
    ),
    "C13": dict(
        text="Symbolic execution of the real grammar matcher, parse-tree processor, expression operators, builder and the two "
        "catch-all funnels on in-memory definitions: the WHOLE definition text as a symbolic str of length <= 2 (quick) / 3 "
        "(thorough, sharded by first-character class); one symbolic Unicode character replacing/inserted into string-escape "
        "and statement templates; operands n/d with unbounded symbolic numerators through + - * and comparisons, small "
        "ranges through / % ** and bitwise operators; one symbolic file-name component (port-ID, version, short name) of "
        "length <= 1 / 2 through the real DSDLDefinition constructor behind a path stub. Only InvalidDefinitionError with "
        "the offending file's path may escape. Choice-exhaustive: every operator x 37 operand spellings (incl. 1e400, "
        "10**400, roots of negatives), 11 value sinks, token-level delete/duplicate/swap/replace/insert on 5 templates, "
        "faulty dependencies.",
        note="Conditions over one symbolic character cost 2-4 s per path and are PARTIAL in the quick tier (reported as such; "
        "they still search for counterexamples). Resource exhaustion (2 ** 10**10, deep nesting) is outside the claim. One "
        "known finding (integers beyond the interpreter's int->str digit limit) is listed in known_findings.json.",
        technique="symbolic execution (CrossHair/z3) of real parser on symbolic text/characters/operands; path-stubbed file names",
        ref="3/C13",
    ),
    "C14": dict(
        text="Symbolic execution of the real constructors, offset iteration and codec on pairs of revisions (D, D') of one "
        "appendable type (5 revisions, each field list a prefix of the next) nested as field, fixed/variable array element, "
        "union variant, inside another delimited type (also as array element) and after a sub-byte field. Layout: with the "
        "extent symbolic (64*q + 8*r bits, q up to 2**40) the container's min/max/residues/extent, BitLengthSet equality "
        "and the offsets of all following fields are identical for both revisions; exact expanded sets for small extents. "
        "Wire: with the integer leaves of the nested objects and of the surrounding fields symbolic over their whole "
        "ranges, deserialize(C[D'], serialize(C[D], v)) keeps common leading fields, yields zero/empty for fields unknown "
        "to the writer, skips fields unknown to the reader and reads every following field and array element correctly, in "
        "both directions, and the result is a fixed point of the reader's revision.",
        note="Revisions/containers/array lengths/union variant are scaffolding. In the quick tier four of the eight leaves are "
        "pinned to constants. Both revisions get identical generated type names so that state keyed by type equality is "
        "exposed (through the concrete witness run: CrossHair does not trace C-level cache key hashing).",
        technique="symbolic execution (CrossHair/z3) of real layout + codec on revision pairs; symbolic extent and leaf values",
        ref="3/C14",
    ),
    "C16": dict(
        text="Symbolic execution of the real constructors and BitLengthSet queries (min, max, extent, fixed_length, byte "
        "alignment of the type, of every field and of every field offset, BitLengthSet ==) on 11 shapes (incl. a fixed array of a variable-length composite whose residues mod 32 cycle) whose array capacity / "
        "extent is SYMBOLIC: n = 32*q + r with q ranging over everything up to 2**63 (r scaffolding), also through the reader "
        "with the capacity injected as an identifier. Work that grows with the capacity is turned into assertions over the "
        "symbolic value by harness-side spies: Operator.expand raises; the name `range` in the bit-length-set and type "
        "modules asserts bound <= 256; `_symbolic.itertools` asserts repetition counts <= 2d-1, operands <= d (d = 64) and "
        "bounds the tuples. A condition holds when its path tree is exhausted with no spy firing - a capacity-dependent loop "
        "makes the spy's assertion falsifiable and the solver returns a capacity. Type-level ==/hash/str (which realise a "
        "symbolic capacity) run on a concrete ladder 2..2**63 under the same spies, tuple counts compared across the ladder.",
        note="Wall-clock time itself is outside the claim. math.log2 realises the capacity's bit length, so each condition "
        "enumerates <= 64 bit lengths. == on huge arrays of variable composites legitimately enumerates ~10**6 tuples "
        "(divisor 32) and is exercised natively (ladder) rather than under the tracer.",
        technique="symbolic execution (CrossHair/z3) with symbolic capacities; loop-bound / expansion spies as assertions",
        ref="3/C16",
    ),
    "C17": dict(
        text="Symbolic execution of the real parser / builder / reader on in-memory definitions: (a) the innermost-location "
        "rule of Error.set_error_location_if_unknown for unbounded symbolic line numbers and every presence pattern; (b) "
        "faulty statements whose VALUE is symbolic (constant beyond range, non-positive capacity, failing assertion, zero "
        "divisor: every integer that makes the statement faulty) - the error must carry the path of the file containing "
        "the statement and its 1-based line, in the target and in dependencies at depth 1 and 2; (c) choice-exhaustive: 35 "
        "fault categories x surrounding lines of 8 kinds before/after x LF/CRLF x final newline; (d) @print delivered "
        "exactly once per directive with its own path, line and text.",
        note="Definitions are in-memory subclasses of the real DSDLDefinition (no file system); the print handler binding "
        "under test is the real one in _namespace_reader. Faults without a statement (missing @sealed etc.) are checked "
        "for path only. One known finding (print path in dependencies) is listed in known_findings.json.",
        technique="symbolic execution (CrossHair/z3) of real parser/reader; symbolic fault values + choice-exhaustive layouts",
        ref="3/C17",
    ),
    "C18": dict(
        text="Symbolic execution of the real __eq__/__hash__ code: Rational equality for x = na/da, y = nb/db with UNBOUNDED "
        "symbolic numerators (symmetric, reflexive, equal <=> values equal, != its negation); Constant equality with symbolic "
        "values over the whole range of uint8 / int64 / float32-range; BitLengthSet equality of differently built sets with "
        "equal expansions (concatenation, union, repetition, range repetition, padding, commuted operands) for leaves "
        "32*q + r with q up to 2**40 - never unequal. Where hash() realises a symbolic number the same statements plus "
        "eq => equal hashes are decided on small choice domains. Choice-exhaustive: all ordered pairs of ~110 independently "
        "built objects of 9 classes (primitives, arrays, composites incl. delimited and services, fields, paddings, "
        "constants incl. character-initialised ones, rationals, booleans, strings, sets, bit length sets): == agrees with the "
        "descriptors, symmetric, hash-consistent, usable as set members; 6 list accessors x 4 composite kinds return copies; "
        "pickle round trip of every object (witness level).",
        note="Type parameters that str() formats (widths, capacities, versions) are choice domains; pickling is a C boundary "
        "and runs on concrete representatives. Pairs of types that agree in kind, string form and bit length set are not "
        "asserted either way. One defect found and repaired (name_components returned the internal list).",
        technique="symbolic execution (CrossHair/z3) of real eq/hash code; symbolic numerators/values/leaves, choice-exhaustive pairs",
        ref="3/C18",
    ),
    "C19": dict(
        text="Symbolic execution of the real read_namespace/read_files on scratch namespaces in which the TEXT of every "
        "definition outside the dependency closure is an unconstrained symbolic str (any text, any length): the "
        "condition exhausts in a single path iff the real code never evaluates that text, and the result, the print "
        "output and the absence of any access are asserted on that path. Outsider placements (other versions of "
        "referenced names, colliding port-IDs/kinds/minor versions, nested directories, the target's own root for "
        "read_files) are enumerated scaffolding.",
        note="DSDLDefinition.text is overridden for outsider paths only (harness-side spy). Malformed outsider FILE "
        "NAMES are outside the claim (the property itself allows them to be reported). Namespace layouts are "
        "scaffolding.",
        technique="symbolic execution (CrossHair/z3) of real reader with unconstrained symbolic outsider text",
        ref="3/C19",
    ),
}

NOT_APPLICABLE = {
    "C15": "every quantified variable (directory depth, names, versions in file names, spelling of roots/targets, cwd) "
    "reaches the code only as an OS path string; pathlib interning and resolve()/exists()/rglob() realise a symbolic "
    "string before the first branch, so solver-based checking degenerates into enumeration of concrete directory "
    "trees (a different technique). The numeric limits shared with C05 are decided there; parsing of ONE file name "
    "(symbolic port-ID / version / short-name component behind a path stub) is exercised under C13 without an identity "
    "oracle; the designation clause was hit once through C10 (defect D13, repaired). An attempt to claim C15 was made and "
    "removed: see DESIGN.md section 9.",
}

PENDING = {"C%02d" % i: "pending: check not built yet in this session" for i in range(1, 20)}


def main() -> None:
    checks = []
    for pid, c in sorted(CLAIMED.items()):
        checks.append(
            {
                "property_id": pid,
                "quick_cmd": "./check %s --tier quick" % pid,
                "thorough_cmd": "./check %s --tier thorough" % pid,
                "evidence_file": "evidence/%s.json" % pid,
                "replay_cmd_template": "./check --replay {path}",
                "engine": "symx",
                "level_claimed": {"category": "model_checking", "text": c["text"], "design_ref": c["ref"]},
                "level_note": c["note"],
                "technique": c["technique"],
            }
        )
    pend = {k: v for k, v in PENDING.items() if k not in CLAIMED and k not in NOT_APPLICABLE}
    na = [{"property_id": k, "reason": v} for k, v in sorted({**NOT_APPLICABLE, **pend}.items())]
    m = {
        "version": 1,
        "setup_cmd": "./setup.sh",
        "hooks": {
            "guard": "OPENCYPHAL_PYDSDL_VERIF",
            "enable": "no hooks are needed: harness-side spies replace names looked up by the code under test",
            "baseline_off_cmd": "cd /repo && /venv/bin/python -m pytest -ra -q -p no:cacheprovider --timeout=900 "
            "--continue-on-collection-errors",
            "source_commits": [],
            "add_only": True,
        },
        "engines": [
            {
                "name": "symx",
                "path": "vp/symx.py",
                "serves_properties": sorted(CLAIMED),
                "kind_free_text": "symbolic execution of the real pydsdl functions with crosshair-tool 0.0.110 "
                "(explore_paths driver) and z3 5.1; verdict per condition only when the path tree is exhausted; "
                "every counterexample replayed in plain CPython",
            },
            {
                "name": "lemma",
                "path": "vp/lemma.py",
                "serves_properties": ["C01", "C05"],
                "kind_free_text": "QF_BV obligations (sumset stabilisation in Z_d) discharged by z3, cross-checked with cvc5; z3 "
                "regular-language equivalence of the reserved-name patterns (C05)",
            },
            {
                "name": "pz",
                "path": "vp/pz.py",
                "serves_properties": ["C06", "C07"],
                "kind_free_text": "AST -> SMT translation of _BitWriter/_BitReader (source fetched with inspect at run time) with "
                "concrete control state, symbolic data and if-conversion; obligations W/A/R/S discharged by z3 QF_BV after "
                "validating the translator on concrete inputs against the real classes",
            },
        ],
        "checks": checks,
        "not_applicable": na,
        "notes": "Exit codes: 0 = property held on everything explored (conditions that did not exhaust within their budget "
        "are listed as INCONCLUSIVE on stderr and under coverage.not_exhausted in the evidence - a budget that ran out is "
        "never reported as a pass of that condition and never as an alarm); 1 = reproducing violation (VIOLATION line); "
        "3 = deterministic harness/engine error (vacuous condition, failing witness, exception in the harness).",
    }
    with open("/verif/MANIFEST.json", "w") as f:
        json.dump(m, f, indent=1)
    import jsonschema  # noqa

    jsonschema.validate(m, json.load(open("/root/.vp/MANIFEST.schema.json")))


if __name__ == "__main__":
    main()
