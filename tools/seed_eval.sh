#!/bin/bash
# seed_eval.sh <name> <property> <dir with patch.diff demo.py notes.md>  [check args...]
# 1. confirms the candidate in a fresh scratch worktree (patch applies, suite passes, demo fails with / passes without)
# 2. stores it under /verif/seeded/<name>/
# 3. applies it to /repo, runs the property's check, reverts /repo
set -u
NAME=$1; PROP=$2; SRC=$3; shift 3
WT=/tmp/wt/verify_$NAME
git -C /repo worktree remove --force $WT 2>/dev/null
git -C /repo worktree add -q --detach $WT HEAD || exit 2
cd $WT
R_CLEAN=$(cd /tmp && PYTHONPATH=$WT /venv/bin/python $SRC/demo.py >/dev/null 2>&1; echo $?)
git apply $SRC/patch.diff || { echo "PATCH DOES NOT APPLY"; git -C /repo worktree remove --force $WT; exit 2; }
R_PATCH=$(cd /tmp && PYTHONPATH=$WT /venv/bin/python $SRC/demo.py >/dev/null 2>&1; echo $?)
SUITE=$(PYTHONPATH=$WT /venv/bin/python -m pytest -q -p no:cacheprovider --timeout=900 2>&1 | tail -1)
cd /verif
git -C /repo worktree remove --force $WT
echo "demo clean=$R_CLEAN patched=$R_PATCH ; suite with patch: $SUITE"
if [ "$R_CLEAN" != "0" ] || [ "$R_PATCH" == "0" ] || ! echo "$SUITE" | grep -q "405 passed"; then echo "CANDIDATE NOT CONFIRMED"; exit 2; fi
mkdir -p /verif/seeded/$NAME
cp $SRC/patch.diff $SRC/demo.py /verif/seeded/$NAME/
[ -f $SRC/notes.md ] && cp $SRC/notes.md /verif/seeded/$NAME/notes.md
git -C /repo apply $SRC/patch.diff || exit 2
mkdir -p /tmp/seedlogs
VERIF_NOEVIDENCE=1 ./check $PROP "$@" > /tmp/seedlogs/$NAME.log 2>&1; RC=$?
git -C /repo checkout -- .
NV=$(grep -c "^VIOLATION" /tmp/seedlogs/$NAME.log)
echo "check $PROP $* on patched tree: exit=$RC violations=$NV"
grep "^VIOLATION" /tmp/seedlogs/$NAME.log | head -3
tail -1 /tmp/seedlogs/$NAME.log
echo "{\"demo_clean\": $R_CLEAN, \"demo_patched\": $R_PATCH, \"suite_with_patch\": \"$SUITE\", \"check\": \"./check $PROP $*\", \"check_exit\": $RC, \"violations\": $NV}" > /verif/seeded/$NAME/run.json
