#!/usr/bin/env python3
"""Writes seeded/<name>/meta.json from run.json + the given fields."""
import json, sys, os
name, prop, needs, caught_by = sys.argv[1:5]
d = "/verif/seeded/%s" % name
run = json.load(open(os.path.join(d, "run.json")))
meta = {
    "property": prop,
    "breaks": open(os.path.join(d, "notes.md")).read().split("\n\n")[0][:600] if os.path.exists(os.path.join(d, "notes.md")) else "",
    "needs_to_manifest": needs,
    "origin": "independent sub-agent given only the property text and a scratch worktree",
    "confirmed": {"suite_with_patch": run["suite_with_patch"], "demo_exit_clean": run["demo_clean"], "demo_exit_patched": run["demo_patched"]},
    "ran": run["check"],
    "check_exit": run["check_exit"],
    "detected": run["check_exit"] == 1,
    "caught_by": caught_by,
}
json.dump(meta, open(os.path.join(d, "meta.json"), "w"), indent=1)
print(name, meta["detected"])
