"""
./check <ID> [--tier quick|thorough] [--seed N] [--only GROUP-PREFIX] [-v]
./check --replay <file>
"""

from __future__ import annotations

import argparse
import importlib
import json
import os
import sys
import typing

from . import runner, symx

PROPS = {
    "C01": "vp.harness.c01_bls",
    "C02": "vp.harness.c02_layout",
    "C03": "vp.harness.c03_mirror",
    "C04": "vp.harness.c04_expr",
    "C05": "vp.harness.c05_rules",
    "C06": "vp.harness.c06_serdes",
    "C07": "vp.harness.c07_deser",
    "C08": "vp.harness.c08_offsets",
    "C09": "vp.harness.c09_refs",
    "C10": "vp.harness.c10_namespace",
    "C11": "vp.harness.c11_xdef",
    "C12": "vp.harness.c12_const",
    "C13": "vp.harness.c13_robust",
    "C14": "vp.harness.c14_evolve",
    "C16": "vp.harness.c16_symbolic",
    "C17": "vp.harness.c17_errloc",
    "C18": "vp.harness.c18_values",
    "C19": "vp.harness.c19_closure",
}


def main() -> int:
    ap = argparse.ArgumentParser()
    ap.add_argument("prop", nargs="?")
    ap.add_argument("--tier", default=os.environ.get("VERIF_TIER", "quick"))
    ap.add_argument("--seed", type=int, default=int(os.environ.get("VERIF_SEED", "0") or 0))
    ap.add_argument("--jobs", type=int, default=int(os.environ.get("VERIF_JOBS", "0") or 0) or (os.cpu_count() or 4))
    ap.add_argument("--only", default=None, help="run only condition groups with this prefix (no evidence written)")
    ap.add_argument("--replay", default=None)
    ap.add_argument("--list", action="store_true")
    ap.add_argument("-v", "--verbose", action="store_true")
    a = ap.parse_args()
    if a.replay:
        return replay(a.replay)
    if a.prop not in PROPS:
        print("unknown property %r; known: %s" % (a.prop, " ".join(sorted(PROPS))), file=sys.stderr)
        return runner.EXIT_HARNESS
    tier = a.tier if a.tier in ("quick", "thorough") else "quick"
    mod = importlib.import_module(PROPS[a.prop])
    conds = list(mod.conditions(tier, a.seed))  # type: typing.List[symx.Cond]
    if a.only:
        conds = [c for c in conds if c.group.startswith(a.only) or a.only in c.name]
    if a.list:
        for c in conds:
            print(c.name)
        return 0
    lemmas = None
    if hasattr(mod, "lemmas") and not a.only:
        try:
            lemmas = mod.lemmas(tier, a.seed)
        except Exception as ex:  # pylint: disable=broad-except
            lemmas = [{"name": "lemmas", "status": "inconclusive: %s: %s" % (type(ex).__name__, ex), "time_s": 0.0}]
    extra = mod.extra_evidence(tier) if hasattr(mod, "extra_evidence") else None
    return runner.run_check(
        a.prop, conds, tier, a.seed, a.jobs, extra=extra, lemma_results=lemmas, verbose=a.verbose,
        write_evidence=not a.only,
    )


def replay(path: str) -> int:
    with open(path) as f:
        rec = json.load(f)
    if "lemma" in rec:
        print("lemma obligation %s: %s" % (rec["lemma"]["name"], rec["lemma"]["status"]))
        print(json.dumps(rec["lemma"].get("model"), default=str))
        return runner.EXIT_VIOLATION
    harness = symx.cond_from_ref(rec["ref"])
    args = {k: symx.dec(v) for k, v in rec["args"].items()}
    out, detail, _ = symx.run_concrete(harness, args)
    print("replay %s args=%r -> %s %s" % (rec["cond"], args, out, detail))
    if out == "violation":
        print("VIOLATION property=%s replay=%s" % (rec["property"], path))
        return runner.EXIT_VIOLATION
    return runner.EXIT_OK


if __name__ == "__main__":
    sys.exit(main())
