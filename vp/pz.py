"""
E3 `pz`: AST -> SMT for the two bit-level kernels of pydsdl/_serdes.py (`_BitWriter`, `_BitReader`).

The source of the methods is fetched from the imported module with inspect at run time (so a change in /repo changes the
encoding), parsed with `ast`, and interpreted over a mixed domain:
  * control state is CONCRETE: bit offset, bit length, limits, buffer lengths (all enumerated by the obligations);
  * data is SYMBOLIC: the value being written and every buffer byte are z3 bit-vectors.
A branch on a symbolic condition (`if bit:`) executes both arms on copies of the state and merges them with ite
(if-conversion), so an n-bit field costs one SMT term, not 2**n paths.  Anything outside the supported subset raises
Unsupported - the obligation is then INCONCLUSIVE, never a pass and never an alarm.

Supported subset: assignments / augmented assignments to names, self attributes, buffer elements and buffer slices; if;
for ... in range(concrete); return; calls of len, divmod, max, min, range, int.from_bytes(x, "little"),
x.to_bytes(n, "little"), bytearray.append / extend, bytes * int, slicing with concrete bounds, self-recursion, the
_BitReader constructor and property access on self.
"""

from __future__ import annotations

import ast
import copy
import inspect
import textwrap
import typing

import z3

W = 160  # width of symbolic integers (values up to 2**72 shifted by up to 64 stay far below 2**160)


class Unsupported(Exception):
    pass


class Violation(Exception):
    """A run-time error the real code would raise (e.g. a byte outside 0..255) is possible."""


class SV:
    """Symbolic integer (non-negative, below 2**W) as a z3 bit-vector."""

    def __init__(self, e: typing.Any) -> None:
        self.e = e

    def __repr__(self) -> str:
        return "SV(%s)" % self.e


def bv(x: typing.Any) -> typing.Any:
    if isinstance(x, SV):
        return x.e
    if isinstance(x, bool):
        x = int(x)
    if isinstance(x, int):
        return z3.BitVecVal(x % (1 << W), W)
    raise Unsupported("cannot turn %r into a bit-vector" % (x,))


class Buf:
    """bytes / bytearray whose LENGTH is concrete and whose elements are ints or SV (each known to be in 0..255)."""

    def __init__(self, items: typing.List[typing.Any], mutable: bool) -> None:
        self.items = list(items)
        self.mutable = mutable

    def __len__(self) -> int:
        return len(self.items)


class Obj:
    """Instance of one of the interpreted classes: a dict of attributes."""

    def __init__(self, cls: str, attrs: typing.Dict[str, typing.Any]) -> None:
        self.cls = cls
        self.attrs = attrs


class _Return(Exception):
    def __init__(self, value: typing.Any) -> None:
        super().__init__()
        self.value = value


def _is_sym(x: typing.Any) -> bool:
    return isinstance(x, SV)


def merge(c: typing.Any, a: typing.Any, b: typing.Any) -> typing.Any:
    """ite(c, a, b) over interpreter values."""
    if a is b:
        return a
    if isinstance(a, Buf) and isinstance(b, Buf):
        if len(a) != len(b) or a.mutable != b.mutable:
            raise Unsupported("merging buffers of different length")
        return Buf([merge(c, x, y) for x, y in zip(a.items, b.items)], a.mutable)
    if isinstance(a, Obj) and isinstance(b, Obj):
        if a.cls != b.cls or set(a.attrs) != set(b.attrs):
            raise Unsupported("merging different objects")
        return Obj(a.cls, {k: merge(c, a.attrs[k], b.attrs[k]) for k in a.attrs})
    if isinstance(a, (int, SV)) and isinstance(b, (int, SV)) and not isinstance(a, bool) and not isinstance(b, bool):
        if isinstance(a, int) and isinstance(b, int) and a == b:
            return a
        return SV(z3.If(c, bv(a), bv(b)))
    if a == b:
        return a
    raise Unsupported("cannot merge %r and %r" % (a, b))


def _merge_into(orig: typing.Any, c: typing.Any, a: typing.Any, b: typing.Any) -> None:
    """In-place version of merge for mutable interpreter objects (identity preserved)."""
    if isinstance(orig, Buf):
        if not (isinstance(a, Buf) and isinstance(b, Buf)) or len(a) != len(b):
            raise Unsupported("merging buffers of different length")
        orig.items = [merge(c, x, y) for x, y in zip(a.items, b.items)]
        return
    if not (isinstance(a, Obj) and isinstance(b, Obj)) or set(a.attrs) != set(b.attrs):
        raise Unsupported("merging different objects")
    for k in a.attrs:
        if k in orig.attrs and isinstance(orig.attrs[k], (Obj, Buf)):
            _merge_into(orig.attrs[k], c, a.attrs[k], b.attrs[k])
        else:
            orig.attrs[k] = merge(c, a.attrs[k], b.attrs[k])


class Interp:
    def __init__(self, classes: typing.Dict[str, typing.Dict[str, ast.FunctionDef]], props: typing.Dict[str, typing.Set[str]]) -> None:
        self.classes = classes
        self.props = props
        self.side = []  # type: typing.List[typing.Any]  # safety obligations (z3 booleans that must hold)
        self.depth = 0

    # ---------------------------------------------------------------- calls
    def call_method(self, obj: Obj, name: str, args: typing.List[typing.Any]) -> typing.Any:
        fn = self.classes[obj.cls].get(name)
        if fn is None:
            raise Unsupported("method %s.%s" % (obj.cls, name))
        params = [a.arg for a in fn.args.args]
        if len(args) != len(params) - 1:
            raise Unsupported("arity of %s" % name)
        env = {"self": obj}
        env.update(dict(zip(params[1:], args)))
        self.depth += 1
        if self.depth > 12:
            raise Unsupported("recursion too deep")
        try:
            self.block(fn.body, env)
        except _Return as r:
            return r.value
        finally:
            self.depth -= 1
        return None

    # ---------------------------------------------------------------- statements
    def block(self, body: typing.List[ast.stmt], env: typing.Dict[str, typing.Any]) -> None:
        for i, st in enumerate(body):
            if isinstance(st, ast.If):
                test = self.ev(st.test, env)
                if _is_sym(test):
                    self._sym_if(test, st, body[i + 1:], env)
                    return
                self.block(st.body if test else st.orelse, env)
            else:
                self.stmt(st, env)

    def _sym_if(self, test: SV, st: ast.If, rest: typing.List[ast.stmt], env: typing.Dict[str, typing.Any]) -> None:
        """if-conversion: both arms (followed by the rest of the block) run on copies; results are merged."""
        c = test.e != 0
        results = []
        for arm in (st.body, st.orelse):
            e2 = self._copy_env(env)
            ret = None  # type: typing.Any
            returned = False
            try:
                self.block(list(arm), e2)
            except _Return as r:
                ret, returned = r.value, True
            results.append((e2, ret, returned))
        (e_t, r_t, ret_t), (e_f, r_f, ret_f) = results
        if ret_t or ret_f:
            raise Unsupported("return inside a symbolic branch")
        for k in set(e_t) | set(e_f):
            if k not in e_t or k not in e_f:
                raise Unsupported("variable %s defined on one arm only" % k)
            if k in env and isinstance(env[k], (Obj, Buf)):
                _merge_into(env[k], c, e_t[k], e_f[k])  # keep object identity: callers hold references to it
            else:
                env[k] = merge(c, e_t[k], e_f[k])
        self.block(rest, env)

    @staticmethod
    def _copy_env(env: typing.Dict[str, typing.Any]) -> typing.Dict[str, typing.Any]:
        memo = {}  # type: typing.Dict[int, typing.Any]

        def cp(v: typing.Any) -> typing.Any:
            if isinstance(v, Buf):
                if id(v) not in memo:
                    memo[id(v)] = Buf(list(v.items), v.mutable)
                return memo[id(v)]
            if isinstance(v, Obj):
                if id(v) not in memo:
                    o = Obj(v.cls, {})
                    memo[id(v)] = o
                    o.attrs = {k: cp(x) for k, x in v.attrs.items()}
                return memo[id(v)]
            return v

        return {k: cp(v) for k, v in env.items()}

    def stmt(self, st: ast.stmt, env: typing.Dict[str, typing.Any]) -> None:
        if isinstance(st, ast.Expr):
            if isinstance(st.value, ast.Constant):
                return  # docstring
            self.ev(st.value, env)
        elif isinstance(st, ast.Assign):
            v = self.ev(st.value, env)
            for t in st.targets:
                self.assign(t, v, env)
        elif isinstance(st, ast.AnnAssign):
            if st.value is not None:
                self.assign(st.target, self.ev(st.value, env), env)
        elif isinstance(st, ast.AugAssign):
            cur = self.ev(_load(st.target), env)
            v = self.binop(st.op, cur, self.ev(st.value, env))
            self.assign(st.target, v, env)
        elif isinstance(st, ast.Return):
            raise _Return(self.ev(st.value, env) if st.value is not None else None)
        elif isinstance(st, ast.For):
            it = self.ev(st.iter, env)
            if not isinstance(it, range):
                raise Unsupported("for over %r" % (it,))
            if st.orelse:
                raise Unsupported("for-else")
            for i in it:
                self.assign(st.target, i, env)
                self.block(st.body, env)
        elif isinstance(st, ast.Pass):
            return
        else:
            raise Unsupported("statement %s" % type(st).__name__)

    def assign(self, t: ast.expr, v: typing.Any, env: typing.Dict[str, typing.Any]) -> None:
        if isinstance(t, ast.Name):
            env[t.id] = v
        elif isinstance(t, ast.Tuple):
            if not isinstance(v, tuple) or len(v) != len(t.elts):
                raise Unsupported("tuple assignment")
            for e, x in zip(t.elts, v):
                self.assign(e, x, env)
        elif isinstance(t, ast.Attribute):
            o = self.ev(t.value, env)
            if not isinstance(o, Obj):
                raise Unsupported("attribute assignment on %r" % (o,))
            o.attrs[t.attr] = v
        elif isinstance(t, ast.Subscript):
            b = self.ev(t.value, env)
            if not isinstance(b, Buf) or not b.mutable:
                raise Unsupported("subscript assignment on %r" % (b,))
            if isinstance(t.slice, ast.Slice):
                lo, hi = self._slice(t.slice, len(b), env)
                if not isinstance(v, Buf):
                    raise Unsupported("slice assignment of %r" % (v,))
                b.items[lo:hi] = list(v.items)
            else:
                i = self.ev(t.slice, env)
                if not isinstance(i, int):
                    raise Unsupported("symbolic index")
                if not -len(b) <= i < len(b):
                    raise Violation("index %d out of range of a buffer of %d bytes" % (i, len(b)))
                b.items[i] = self._byte(v)
        else:
            raise Unsupported("assignment target %s" % type(t).__name__)

    def _byte(self, v: typing.Any) -> typing.Any:
        if isinstance(v, int):
            if not 0 <= v <= 255:
                raise Violation("byte value %d" % v)
            return v
        if isinstance(v, SV):
            self.side.append(z3.ULE(v.e, z3.BitVecVal(255, W)))
            return v
        raise Unsupported("byte %r" % (v,))

    def _slice(self, s: ast.Slice, n: int, env: typing.Dict[str, typing.Any]) -> typing.Tuple[int, int]:
        if s.step is not None:
            raise Unsupported("slice step")
        lo = self.ev(s.lower, env) if s.lower is not None else 0
        hi = self.ev(s.upper, env) if s.upper is not None else n
        if not isinstance(lo, int) or not isinstance(hi, int):
            raise Unsupported("symbolic slice bound")
        lo, hi, _ = slice(lo, hi).indices(n)
        return lo, max(lo, hi)

    # ---------------------------------------------------------------- expressions
    def ev(self, e: typing.Optional[ast.expr], env: typing.Dict[str, typing.Any]) -> typing.Any:
        if e is None:
            return None
        if isinstance(e, ast.Constant):
            if isinstance(e.value, bytes):
                return Buf(list(e.value), False)
            if isinstance(e.value, (int, bool, str)) or e.value is None:
                return e.value
            raise Unsupported("constant %r" % (e.value,))
        if isinstance(e, ast.Name):
            if e.id in env:
                return env[e.id]
            if e.id in ("None", "True", "False"):
                return {"None": None, "True": True, "False": False}[e.id]
            raise Unsupported("name %s" % e.id)
        if isinstance(e, ast.Attribute):
            o = self.ev(e.value, env)
            if isinstance(o, Obj):
                if e.attr in o.attrs:
                    return o.attrs[e.attr]
                if e.attr in self.props.get(o.cls, set()):
                    return self.call_method(o, e.attr, [])
                raise Unsupported("attribute %s" % e.attr)
            raise Unsupported("attribute %s of %r" % (e.attr, o))
        if isinstance(e, ast.BinOp):
            return self.binop(e.op, self.ev(e.left, env), self.ev(e.right, env))
        if isinstance(e, ast.UnaryOp):
            v = self.ev(e.operand, env)
            if isinstance(e.op, ast.Not):
                if _is_sym(v):
                    raise Unsupported("not on symbolic")
                return not v
            if isinstance(v, int):
                return {ast.Invert: lambda x: ~x, ast.USub: lambda x: -x, ast.UAdd: lambda x: +x}[type(e.op)](v)
            raise Unsupported("unary on symbolic")
        if isinstance(e, ast.Compare):
            left = self.ev(e.left, env)
            out = True
            for op, rhs in zip(e.ops, e.comparators):
                right = self.ev(rhs, env)
                if isinstance(op, (ast.Is, ast.IsNot)):
                    r = (left is right) if isinstance(op, ast.Is) else (left is not right)
                elif _is_sym(left) or _is_sym(right):
                    raise Unsupported("comparison of symbolic values")
                else:
                    r = {ast.Eq: lambda a, b: a == b, ast.NotEq: lambda a, b: a != b, ast.Lt: lambda a, b: a < b,
                         ast.LtE: lambda a, b: a <= b, ast.Gt: lambda a, b: a > b, ast.GtE: lambda a, b: a >= b}[type(op)](left, right)
                out = out and r
                left = right
            return out
        if isinstance(e, ast.BoolOp):
            vals = [self.ev(v, env) for v in e.values]
            if any(_is_sym(v) for v in vals):
                raise Unsupported("boolean operator on symbolic")
            return all(vals) if isinstance(e.op, ast.And) else any(vals)
        if isinstance(e, ast.Tuple):
            return tuple(self.ev(x, env) for x in e.elts)
        if isinstance(e, ast.Subscript):
            b = self.ev(e.value, env)
            if not isinstance(b, Buf):
                raise Unsupported("subscript of %r" % (b,))
            if isinstance(e.slice, ast.Slice):
                lo, hi = self._slice(e.slice, len(b), env)
                return Buf(b.items[lo:hi], False)
            i = self.ev(e.slice, env)
            if not isinstance(i, int):
                raise Unsupported("symbolic index")
            if not -len(b) <= i < len(b):
                raise Violation("index %d out of range of a buffer of %d bytes" % (i, len(b)))
            return b.items[i]
        if isinstance(e, ast.Call):
            return self.call(e, env)
        if isinstance(e, ast.IfExp):
            t = self.ev(e.test, env)
            if _is_sym(t):
                raise Unsupported("conditional expression on symbolic")
            return self.ev(e.body if t else e.orelse, env)
        raise Unsupported("expression %s" % type(e).__name__)

    def binop(self, op: ast.operator, a: typing.Any, b: typing.Any) -> typing.Any:
        if isinstance(a, Buf) or isinstance(b, Buf):
            if isinstance(op, ast.Mult):
                buf, n = (a, b) if isinstance(a, Buf) else (b, a)
                if not isinstance(n, int):
                    raise Unsupported("buffer * symbolic")
                return Buf(buf.items * max(0, n), False)
            if isinstance(op, ast.Add) and isinstance(a, Buf) and isinstance(b, Buf):
                return Buf(a.items + b.items, False)
            raise Unsupported("buffer operator")
        if isinstance(a, int) and isinstance(b, int):
            f = {ast.Add: lambda x, y: x + y, ast.Sub: lambda x, y: x - y, ast.Mult: lambda x, y: x * y,
                 ast.FloorDiv: lambda x, y: x // y, ast.Mod: lambda x, y: x % y, ast.LShift: lambda x, y: x << y,
                 ast.RShift: lambda x, y: x >> y, ast.BitAnd: lambda x, y: x & y, ast.BitOr: lambda x, y: x | y,
                 ast.BitXor: lambda x, y: x ^ y}.get(type(op))
            if f is None:
                raise Unsupported("operator %s" % type(op).__name__)
            return f(a, b)
        # symbolic: only the operators whose BV semantics coincide with Python's on non-negative values below 2**W
        if isinstance(op, (ast.LShift, ast.RShift)):
            if not isinstance(b, int) or b < 0:
                raise Unsupported("shift by a symbolic amount")
            if isinstance(op, ast.RShift):
                return SV(z3.LShR(bv(a), b))
            if b > 80:
                raise Unsupported("left shift beyond the modelled width")
            x = bv(a)
            self.side.append(z3.Extract(W - 1, W - 1 - b, x) == 0 if b > 0 else z3.BoolVal(True))  # no bit shifted out
            return SV(x << b)
        if isinstance(op, ast.BitAnd):
            return SV(bv(a) & bv(b))
        if isinstance(op, ast.BitOr):
            for v in (a, b):
                if isinstance(v, int) and v < 0:
                    raise Unsupported("| with a negative constant")
            return SV(bv(a) | bv(b))
        if isinstance(op, ast.BitXor):
            return SV(bv(a) ^ bv(b))
        raise Unsupported("operator %s on symbolic operands" % type(op).__name__)

    def call(self, e: ast.Call, env: typing.Dict[str, typing.Any]) -> typing.Any:
        if e.keywords:
            raise Unsupported("keyword arguments")
        f = e.func
        args = [self.ev(a, env) for a in e.args]
        if isinstance(f, ast.Name):
            if f.id == "len":
                return len(args[0])
            if f.id in ("divmod", "max", "min", "range"):
                if any(_is_sym(a) for a in args):
                    raise Unsupported("%s on symbolic" % f.id)
                return {"divmod": divmod, "max": max, "min": min, "range": range}[f.id](*args)
            if f.id in self.classes:
                return self.construct(f.id, args)
            raise Unsupported("call of %s" % f.id)
        if isinstance(f, ast.Attribute):
            if isinstance(f.value, ast.Name) and f.value.id == "int" and f.attr == "from_bytes":
                buf, order = args
                if order != "little" or not isinstance(buf, Buf):
                    raise Unsupported("from_bytes")
                if not buf.items:
                    return 0
                if all(isinstance(x, int) for x in buf.items):
                    return int.from_bytes(bytes(buf.items), "little")
                acc = z3.BitVecVal(0, W)
                for i, x in enumerate(buf.items):
                    acc = acc | (bv(x) << (8 * i))
                return SV(acc)
            o = self.ev(f.value, env)
            if isinstance(o, Obj):
                return self.call_method(o, f.attr, args)
            if isinstance(o, Buf):
                if f.attr == "append" and o.mutable:
                    o.items.append(self._byte(args[0]))
                    return None
                if f.attr == "extend" and o.mutable and isinstance(args[0], Buf):
                    o.items.extend(args[0].items)
                    return None
                raise Unsupported("buffer method %s" % f.attr)
            if f.attr == "to_bytes":
                n, order = args
                if order != "little" or not isinstance(n, int):
                    raise Unsupported("to_bytes")
                if isinstance(o, int):
                    return Buf(list(o.to_bytes(n, "little")), False)
                if isinstance(o, SV):
                    # Python raises OverflowError if the value does not fit
                    self.side.append(z3.LShR(o.e, 8 * n) == 0 if 8 * n < W else z3.BoolVal(True))
                    return Buf([SV(z3.LShR(o.e, 8 * i) & 0xFF) for i in range(n)], False)
            raise Unsupported("method %s" % f.attr)
        raise Unsupported("call")

    def construct(self, cls: str, args: typing.List[typing.Any]) -> Obj:
        if cls == "_BitReader":
            data = args[0]
            off = args[1] if len(args) > 1 else 0
            lim = args[2] if len(args) > 2 else None
            return Obj(cls, {"_data": data, "_start_offset": off, "_bit_offset": off, "_bit_limit": lim})
        raise Unsupported("constructor of %s" % cls)


def _load(t: ast.expr) -> ast.expr:
    t2 = copy.deepcopy(t)
    for n in ast.walk(t2):
        if hasattr(n, "ctx"):
            n.ctx = ast.Load()  # type: ignore
    return t2


def load_kernels() -> Interp:
    """Parses the two classes out of the imported pydsdl._serdes (the working tree's source)."""
    from pydsdl import _serdes

    classes = {}  # type: typing.Dict[str, typing.Dict[str, ast.FunctionDef]]
    props = {}  # type: typing.Dict[str, typing.Set[str]]
    for name in ("_BitWriter", "_BitReader"):
        src = textwrap.dedent(inspect.getsource(getattr(_serdes, name)))
        tree = ast.parse(src).body[0]
        assert isinstance(tree, ast.ClassDef)
        classes[name] = {}
        props[name] = set()
        for item in tree.body:
            if isinstance(item, ast.FunctionDef):
                classes[name][item.name] = item
                if any(isinstance(d, ast.Name) and d.id == "property" for d in item.decorator_list):
                    props[name].add(item.name)
    return Interp(classes, props)


def new_writer(buf: typing.List[typing.Any], offset: int) -> Obj:
    return Obj("_BitWriter", {"_buffer": Buf(buf, True), "_bit_offset": offset})


def new_reader(data: typing.List[typing.Any], offset: int = 0, limit: typing.Optional[int] = None,
               start: typing.Optional[int] = None) -> Obj:
    return Obj("_BitReader", {"_data": Buf(data, False), "_start_offset": offset if start is None else start,
                              "_bit_offset": offset, "_bit_limit": limit})


def buf_as_int(items: typing.List[typing.Any]) -> typing.Any:
    """The buffer read as one little-endian integer (z3 bit-vector of width 8 * len, at least 8)."""
    n = max(1, len(items))
    acc = z3.BitVecVal(0, 8 * n)
    for i, x in enumerate(items):
        b = z3.Extract(7, 0, bv(x)) if isinstance(x, SV) else z3.BitVecVal(x, 8)
        acc = acc | (z3.ZeroExt(8 * n - 8, b) << (8 * i))
    return acc
