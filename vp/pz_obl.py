"""
Obligations over the SMT encoding of the bit kernels (vp/pz.py), discharged by z3:

 (W) write_bits(v, n) from bit offset o into a buffer of L bytes: the new buffer, read as one little-endian integer,
     equals the old one with bits [o, o+n) replaced by v mod 2**n; its length is max(L, ceil((o+n)/8)); the offset
     advanced by n; no operation the real code would fail on (byte outside 0..255, index error) is possible.
 (A) align_to(a) writes zero bits up to the next multiple of a (writer) / skips them (reader).
 (R) read_bits(n) at offset o from D symbolic bytes, optionally inside a bounded sub-reader: returns bits
     [o, o + min(n, available)) of the data, zeros beyond the data and beyond the limit; the offset advances by n.
 (S) bounded_subreader(k) / remaining_bits: concrete bookkeeping.

Control state (o, n, L, D, limit, consumed) is enumerated; v and every byte are symbolic bit-vectors: one `unsat` covers
all 2**72 values x all buffer contents for that control state.  The translator is validated first by pushing concrete
inputs (the literals of pydsdl's own serdes tests and seeded random ones) through both the real methods and the encoding.
"""

from __future__ import annotations

import random
import time
import typing

import z3

from . import pz

VBITS = 72


def _ceil8(x: int) -> int:
    return (x + 7) // 8


def _sym_bytes(prefix: str, n: int) -> typing.List[pz.SV]:
    return [pz.SV(z3.ZeroExt(pz.W - 8, z3.BitVec("%s%d" % (prefix, i), 8))) for i in range(n)]


def _check(solver: z3.Solver, claims: typing.List[typing.Any], side: typing.List[typing.Any]) -> typing.Tuple[str, typing.Any]:
    """unsat of the negated conjunction = the claims (and all safety side conditions) hold for every value."""
    solver.push()
    solver.add(z3.Not(z3.And(*(claims + side))) if (claims or side) else z3.BoolVal(False))
    r = str(solver.check())
    model = None
    if r == "sat":
        model = {str(d): str(solver.model()[d]) for d in solver.model().decls()}
    solver.pop()
    return r, model


def writer_obligation(it: pz.Interp, solver: z3.Solver, o: int, n: int, extra: int) -> typing.Tuple[str, typing.Any]:
    L = _ceil8(o) + extra
    old = _sym_bytes("b", L)
    v = z3.BitVec("v", pz.W)
    it.side = []
    w = pz.new_writer(list(old), o)
    it.call_method(w, "write_bits", [pz.SV(v), n])
    newlen = max(L, _ceil8(o + n))
    claims = []
    buf = w.attrs["_buffer"]
    claims.append(z3.BoolVal(len(buf) == newlen))
    claims.append(z3.BoolVal(w.attrs["_bit_offset"] == o + n))
    if len(buf) == newlen:
        width = 8 * newlen
        got = pz.buf_as_int(buf.items)
        oldi = pz.buf_as_int(list(old) + [0] * (newlen - L))
        mask = ((1 << n) - 1) << o
        vv = z3.Extract(width - 1, 0, v) if width <= pz.W else z3.ZeroExt(width - pz.W, v)
        field = (vv << o) & z3.BitVecVal(mask, width)
        want = (oldi & z3.BitVecVal(~mask % (1 << width), width)) | field
        claims.append(got == want)
    solver.push()
    solver.add(z3.ULT(v, z3.BitVecVal(1 << VBITS, pz.W)))
    r = _check(solver, claims, list(it.side))
    solver.pop()
    return r


def reader_obligation(it: pz.Interp, solver: z3.Solver, o: int, n: int, D: int, limit: typing.Optional[int],
                      consumed: int) -> typing.Tuple[str, typing.Any]:
    data = _sym_bytes("d", D)
    it.side = []
    r = pz.new_reader(list(data), o, limit, start=o - consumed)
    res = it.call_method(r, "read_bits", [n])
    avail = n if limit is None else max(0, min(n, limit - consumed))
    claims = [z3.BoolVal(r.attrs["_bit_offset"] == o + n)]
    width = 8 * max(D, _ceil8(o + n)) + 8
    di = z3.ZeroExt(width - 8 * max(1, D), pz.buf_as_int(list(data))) if D else z3.BitVecVal(0, width)
    want = z3.LShR(di, o) & z3.BitVecVal((1 << avail) - 1, width)
    got = pz.bv(res)
    if width <= pz.W:
        claims.append(z3.Extract(width - 1, 0, got) == want)
        claims.append(z3.LShR(got, width) == 0 if width < pz.W else z3.BoolVal(True))
    else:
        claims.append(z3.ZeroExt(width - pz.W, got) == want)
    return _check(solver, claims, list(it.side))


def validate_translator(it: pz.Interp, seed: int, rounds: int = 400) -> typing.Tuple[int, typing.Optional[str]]:
    """Concrete inputs through the real classes and through the encoding must agree (Serval-style validation)."""
    from pydsdl import _serdes

    rnd = random.Random(seed)
    done = 0
    # literals of the repository's own tests of the two classes + random sequences
    for _ in range(rounds):
        real = _serdes._BitWriter()  # pylint: disable=protected-access
        sym = pz.new_writer([], 0)
        for _step in range(rnd.randrange(1, 6)):
            if rnd.random() < 0.2:
                a = rnd.choice([1, 8, 16, 32, 64])
                real.align_to(a)
                it.call_method(sym, "align_to", [a])
            else:
                n = rnd.choice([1, 2, 3, 5, 7, 8, 9, 12, 16, 17, 24, 31, 32, 33, 48, 63, 64])
                v = rnd.getrandbits(rnd.choice([n, n + 4, 72]))
                real.write_bits(v, n)
                it.call_method(sym, "write_bits", [v, n])
            done += 1
        if bytes(real.finish()) != bytes(sym.attrs["_buffer"].items) or real.bit_offset != sym.attrs["_bit_offset"]:
            return done, "writer: real %s @%d, encoding %s @%d" % (real.finish().hex(), real.bit_offset,
                                                                    bytes(sym.attrs["_buffer"].items).hex(), sym.attrs["_bit_offset"])
        data = bytes(rnd.getrandbits(8) for _ in range(rnd.randrange(0, 12)))
        rr = _serdes._BitReader(data)  # pylint: disable=protected-access
        sr = pz.new_reader(list(data))
        for _step in range(rnd.randrange(1, 7)):
            c = rnd.random()
            if c < 0.15:
                a = rnd.choice([1, 8, 16, 32])
                rr.align_to(a)
                it.call_method(sr, "align_to", [a])
            elif c < 0.3:
                k = rnd.randrange(0, 40)
                rr2 = rr.bounded_subreader(k)
                sr2 = it.call_method(sr, "bounded_subreader", [k])
                for _j in range(rnd.randrange(1, 4)):
                    n = rnd.choice([1, 3, 8, 9, 16, 33])
                    if rr2.read_bits(n) != it.call_method(sr2, "read_bits", [n]):
                        return done, "sub-reader read_bits disagrees"
                    if rr2.remaining_bits != it.call_method(sr2, "remaining_bits", []):
                        return done, "sub-reader remaining_bits disagrees"
            else:
                n = rnd.choice([1, 2, 3, 7, 8, 9, 13, 16, 24, 32, 33, 64])
                if rr.read_bits(n) != it.call_method(sr, "read_bits", [n]):
                    return done, "reader read_bits(%d) disagrees on %s" % (n, data.hex())
            if rr.bit_offset != sr.attrs["_bit_offset"] or rr.remaining_bits != it.call_method(sr, "remaining_bits", []):
                return done, "reader bookkeeping disagrees"
            done += 1
    return done, None


def run(tier: str, seed: int, want: typing.Sequence[str] = ("W", "R", "A", "S")) -> typing.List[typing.Dict[str, typing.Any]]:
    """Returns lemma-style records, grouped (one record per obligation family and offset)."""
    out = []  # type: typing.List[typing.Dict[str, typing.Any]]
    t0 = time.perf_counter()
    try:
        it = pz.load_kernels()
    except (pz.Unsupported, pz.Violation) as ex:
        return [{"name": "pz.translator", "status": "inconclusive: %s: %s" % (type(ex).__name__, ex), "time_s": 0.0}]
    try:
        nval, err = validate_translator(it, seed)
    except (pz.Unsupported, pz.Violation) as ex:
        nval, err = 0, None  # the encoding itself refuses / fails on a concrete input: the obligations below decide
        _ = ex
    except Exception as ex:  # pylint: disable=broad-except
        # the REAL class raised on a concrete, well-formed sequence of operations (e.g. IndexError on truncated data)
        return [{"name": "pz.translator-validation", "status": "violated", "time_s": round(time.perf_counter() - t0, 2),
                 "obligation": "the real _BitWriter/_BitReader never raise on well-formed operation sequences",
                 "model": {"exception": "%s: %s" % (type(ex).__name__, ex)}}]
    rec = {"name": "pz.translator-validation", "time_s": round(time.perf_counter() - t0, 2),
           "obligation": "%d concrete operations through the real _BitWriter/_BitReader and through the encoding agree" % nval}
    if err:
        rec["status"] = "inconclusive: encoding disagrees with the real code on concrete input (%s)" % err
        return [rec]
    rec["status"] = "discharged"
    out.append(rec)
    thorough = tier == "thorough"
    widths = list(range(1, 65)) if thorough else [1, 2, 3, 5, 7, 8, 9, 13, 15, 16, 17, 24, 31, 32, 33, 40, 47, 56, 63, 64]
    offsets = list(range(0, 24)) if thorough else list(range(0, 9))
    solver = z3.Solver()
    solver.set("timeout", 60000)

    def family(name: str, text: str, cases: typing.Iterable[typing.Any], fn: typing.Callable[..., typing.Any]) -> None:
        t1 = time.perf_counter()
        n_ok, bad, inc = 0, None, None
        for case in cases:
            try:
                r, model = fn(*case)
            except pz.Unsupported as ex:
                inc = "Unsupported construct for case %r: %s" % (case, ex)
                break
            except pz.Violation as ex:
                bad = {"case": list(case), "error": str(ex)}
                break
            if r == "unsat":
                n_ok += 1
            elif r == "sat":
                bad = {"case": list(case), "model": model}
                break
            else:
                inc = "solver answered %s for case %r" % (r, case)
                break
        rec = {"name": name, "obligation": text, "queries": n_ok, "time_s": round(time.perf_counter() - t1, 2),
               "solver": "z3 %s QF_BV" % z3.get_version_string()}
        if bad is not None:
            rec["status"], rec["model"] = "violated", bad
        elif inc is not None:
            rec["status"] = "inconclusive: " + inc
        else:
            rec["status"] = "discharged"
        out.append(rec)

    if "W" in want:
        for o in offsets:
            family("pz.W[o=%d]" % o,
                   "write_bits(v, n) at bit offset %d, n in %s, buffer of ceil(o/8) + {0,1,3,10} symbolic bytes, every v < 2**%d: "
                   "bits [o, o+n) := v mod 2**n, everything else unchanged, length and offset as specified" % (o, "1..64" if thorough else widths, VBITS),
                   [(o, n, e) for n in widths for e in (0, 1, 3, 10)],
                   lambda o_, n_, e_: writer_obligation(it, solver, o_, n_, e_))
    if "A" in want:
        def align_case(o_: int, a_: int, e_: int) -> typing.Any:
            L = _ceil8(o_) + e_
            old = _sym_bytes("b", L)
            it.side = []
            w = pz.new_writer(list(old), o_)
            it.call_method(w, "align_to", [a_])
            target = -(-o_ // a_) * a_ if a_ > 0 else o_
            newlen = max(L, _ceil8(target))
            buf = w.attrs["_buffer"]
            claims = [z3.BoolVal(w.attrs["_bit_offset"] == target), z3.BoolVal(len(buf) == newlen)]
            if len(buf) == newlen and newlen:
                width = 8 * newlen
                mask = (((1 << (target - o_)) - 1) << o_) if target > o_ else 0
                claims.append(pz.buf_as_int(buf.items) == (pz.buf_as_int(list(old) + [0] * (newlen - L)) & z3.BitVecVal(~mask % (1 << width), width)))
            rr = pz.new_reader(_sym_bytes("d", 3), o_)
            it.call_method(rr, "align_to", [a_])
            claims.append(z3.BoolVal(rr.attrs["_bit_offset"] == target))
            return _check(solver, claims, list(it.side))

        family("pz.A", "align_to(a), a in {0,1,8,16,32,64}, from every offset 0..40: zero bits written (writer) / skipped (reader) "
               "up to the next multiple", [(o, a, e) for o in range(0, 41) for a in (0, 1, 8, 16, 32, 64) for e in (0, 2)], align_case)
    if "R" in want:
        for o in offsets:
            cases = []
            for n in widths:
                need = _ceil8(o + n)
                for D in sorted({0, o // 8, max(0, need - 1), need, need + 2}):
                    cases.append((o, n, D, None, 0))
                    for lim, cons in ((0, 0), (1, 0), (n - 1, 0), (n, 0), (n + 5, 0), (n + 3, 3), (8, 8), (n + 8, 8), (5, 9)):
                        if lim >= 0 and o - cons >= 0:
                            cases.append((o, n, D, lim, cons))
            family("pz.R[o=%d]" % o,
                   "read_bits(n) at bit offset %d from D symbolic bytes (D around the field), without limit and inside bounded "
                   "sub-readers (limit / bits already consumed varied): value = data bits [o, o+min(n, available)), zeros beyond "
                   "data and limit; offset advances by n" % o, cases,
                   lambda o_, n_, D_, lim_, c_: reader_obligation(it, solver, o_, n_, D_, lim_, c_))
    if "S" in want:
        def sub_case(o_: int, k_: int, D_: int) -> typing.Any:
            it.side = []
            r = pz.new_reader(_sym_bytes("d", D_), o_)
            rem0 = it.call_method(r, "remaining_bits", [])
            sub = it.call_method(r, "bounded_subreader", [k_])
            claims = [z3.BoolVal(rem0 == max(0, 8 * D_ - o_)), z3.BoolVal(r.attrs["_bit_offset"] == o_ + k_),
                      z3.BoolVal(sub.attrs["_bit_offset"] == o_ and sub.attrs["_bit_limit"] == k_ and sub.attrs["_start_offset"] == o_),
                      z3.BoolVal(it.call_method(sub, "remaining_bits", []) == k_)]
            got = it.call_method(sub, "read_bits", [min(k_, 9)])
            _ = got
            claims.append(z3.BoolVal(it.call_method(sub, "remaining_bits", []) == k_ - min(k_, 9)))
            # nested sub-reader: limit is relative to its own start
            sub2 = it.call_method(sub, "bounded_subreader", [5])
            claims.append(z3.BoolVal(it.call_method(sub2, "remaining_bits", []) == 5))
            # reading past the limit: zeros, and nothing (never a negative number of bits) remains afterwards
            over = it.call_method(sub2, "read_bits", [12])
            claims.append(pz.bv(over) == (pz.bv(over) & 31))
            claims.append(z3.BoolVal(it.call_method(sub2, "remaining_bits", []) == 0))
            claims.append(z3.BoolVal(it.call_method(sub, "remaining_bits", []) == max(0, k_ - min(k_, 9) - 5)))
            rest = pz.new_reader(_sym_bytes("e", 1), 3)
            it.call_method(rest, "read_bits", [40])
            claims.append(z3.BoolVal(it.call_method(rest, "remaining_bits", []) == 0))
            return _check(solver, claims, list(it.side))

        family("pz.S", "bounded_subreader(k) / remaining_bits bookkeeping from offsets 0..40, k in 0..40, 0..6 data bytes",
               [(o, k, D) for o in range(0, 41, 3) for k in (0, 1, 7, 8, 9, 16, 33, 40) for D in (0, 1, 3, 6)], sub_case)
    return out
