"""
Worker pool, findings protocol, evidence writer.
"""

from __future__ import annotations

import importlib
import json
import multiprocessing as mp
import os
import queue
import sys
import time
import typing

from . import symx

ROOT = os.path.dirname(os.path.dirname(os.path.abspath(__file__)))
EVIDENCE_DIR = os.path.join(ROOT, "evidence")
REPLAY_DIR = os.path.join(ROOT, "evidence", "replay")
FINDINGS = os.path.join(ROOT, "known_findings.json")
EXIT_OK, EXIT_VIOLATION, EXIT_HARNESS = 0, 1, 3


def _worker(tasks: "mp.Queue[typing.Any]", results: "mp.Queue[typing.Any]", conds: typing.List[symx.Cond]) -> None:
    sys.setrecursionlimit(10000)
    while True:
        item = tasks.get()
        if item is None:
            return
        idx, budget = item
        results.put(("start", idx, os.getpid(), time.time()))
        r = symx.run_one(conds[idx], budget)
        results.put(("done", idx, os.getpid(), r))


def run_conditions(
    conds: typing.List[symx.Cond], jobs: int, budget_scale: float = 1.0, log: typing.Any = None
) -> typing.List[typing.Dict[str, typing.Any]]:
    """
    Runs every condition in a pool of forked workers.  A worker that overruns its condition's budget by a wide
    margin (a concrete infinite loop the engine cannot interrupt) is killed and the condition reported TIMEOUT.
    """
    ctx = mp.get_context("fork")
    tasks = ctx.Queue()  # type: ignore
    results = ctx.Queue()  # type: ignore
    order = sorted(range(len(conds)), key=lambda i: -conds[i].budget)
    for i in order:
        tasks.put((i, conds[i].budget * budget_scale))
    nproc = max(1, min(jobs, len(conds)))
    procs = {}  # type: typing.Dict[int, typing.Any]

    def spawn() -> None:
        p = ctx.Process(target=_worker, args=(tasks, results, conds), daemon=True)
        p.start()
        procs[p.pid] = p

    for _ in range(nproc):
        spawn()
    out = {}  # type: typing.Dict[int, typing.Dict[str, typing.Any]]
    running = {}  # type: typing.Dict[int, typing.Tuple[int, float]]  # pid -> (idx, started)
    while len(out) < len(conds):
        try:
            kind, idx, pid, payload = results.get(timeout=1.0)
        except queue.Empty:
            kind = None
        if kind == "start":
            running[pid] = (idx, payload)
        elif kind == "done":
            running.pop(pid, None)
            out[idx] = payload
            if log:
                log(payload)
        now = time.time()
        for pid, (idx, started) in list(running.items()):
            c = conds[idx]
            hard = c.budget * budget_scale * 2 + c.path_timeout * 2 + 60
            if now - started > hard:
                procs[pid].kill()
                procs.pop(pid).join()
                running.pop(pid)
                out[idx] = _stub_result(c, "TIMEOUT", "worker killed after %.0f s" % (now - started))
                if log:
                    log(out[idx])
                spawn()
        for pid, p in list(procs.items()):
            if not p.is_alive() and pid in running:
                idx, _ = running.pop(pid)
                procs.pop(pid)
                out[idx] = _stub_result(conds[idx], "ERROR", "worker died (exit code %s)" % p.exitcode)
                if log:
                    log(out[idx])
                spawn()
    for _ in procs:
        tasks.put(None)
    for p in procs.values():
        p.join(timeout=5)
        if p.is_alive():
            p.kill()
    return [out[i] for i in range(len(conds))]


def _stub_result(c: symx.Cond, verdict: str, msg: str) -> typing.Dict[str, typing.Any]:
    return {
        "name": c.name,
        "group": c.group,
        "prop": c.prop,
        "kind": c.kind,
        "ref": c.ref(),
        "verdict": verdict,
        "error": msg,
        "paths": 0,
        "reached": 0,
        "decisions": 0,
        "cex": [],
        "solver_queries": 0,
        "solver_time_s": 0.0,
        "wall_s": 0.0,
        "functions": [],
    }


# ------------------------------------------------------------------------------------------------------------------


def load_findings() -> typing.List[typing.Dict[str, typing.Any]]:
    try:
        with open(FINDINGS) as f:
            return list(json.load(f)["findings"])
    except FileNotFoundError:
        return []


def finding_key(cond: symx.Cond, cex: typing.Dict[str, typing.Any]) -> str:
    if cond.key:
        mod = importlib.import_module(cond.factory.__module__)
        args = {k: symx.dec(v) for k, v in cex["args"].items()}
        return str(getattr(mod, cond.key)(cond.scaffold, args, cex.get("detail", "")))
    return cond.group


def run_check(
    prop: str,
    conds: typing.List[symx.Cond],
    tier: str,
    seed: int,
    jobs: int,
    extra: typing.Optional[typing.Dict[str, typing.Any]] = None,
    lemma_results: typing.Optional[typing.List[typing.Dict[str, typing.Any]]] = None,
    verbose: bool = False,
    write_evidence: bool = True,
) -> int:
    t0 = time.perf_counter()
    os.makedirs(REPLAY_DIR, exist_ok=True)

    def log(r: typing.Dict[str, typing.Any]) -> None:
        if verbose or r["verdict"] not in ("EXHAUSTED",):
            print(
                "  %-10s %6.1fs paths=%-5d reached=%-5d %s%s"
                % (
                    r["verdict"],
                    r.get("wall_s", 0.0),
                    r["paths"],
                    r["reached"],
                    r["name"],
                    ("  !! " + r["error"].splitlines()[0]) if r.get("error") else "",
                ),
                flush=True,
            )

    results = run_conditions(conds, jobs, log=log) if conds else []
    findings = [f for f in load_findings() if f["property"] == prop]
    known = {f["key"]: f for f in findings if f.get("status") == "known"}
    violations = []  # type: typing.List[str]
    known_seen = {}  # type: typing.Dict[str, str]
    harness_errors = []  # type: typing.List[str]
    not_exhausted = []  # type: typing.List[str]
    nreplays = 0
    for c, r in zip(conds, results):
        v = r["verdict"]
        if v in ("ERROR", "VACUOUS", "WITNESS-FAILED"):
            harness_errors.append("%s: %s %s" % (r["name"], v, (r.get("error") or "").strip()[-600:]))
        elif (v == "PARTIAL" and c.need_exhaust) or v == "TIMEOUT":
            # budget-dependent (machine load): reported, listed in the evidence, never an alarm
            not_exhausted.append(r["name"])
        for i, cex in enumerate(r.get("cex", [])):
            nreplays += 1
            key = finding_key(c, cex)
            cex["finding_key"] = key
            if key in known:
                known_seen[key] = known[key]["what"]
                continue
            path = os.path.join(REPLAY_DIR, "%s_%s_%d.json" % (prop, _slug(r["name"]), i))
            with open(path, "w") as f:
                json.dump(
                    {"property": prop, "cond": r["name"], "ref": r["ref"], "args": cex["args"], "detail": cex["detail"],
                     "finding_key": key},
                    f,
                    indent=1,
                )
            violations.append(path)
    for lr in lemma_results or []:
        if lr["status"] == "violated":
            path = os.path.join(REPLAY_DIR, "%s_%s.json" % (prop, _slug(lr["name"])))
            with open(path, "w") as f:
                json.dump({"property": prop, "lemma": lr}, f, indent=1, default=str)
            violations.append(path)
        elif lr["status"] != "discharged":
            harness_errors.append("lemma %s: %s" % (lr["name"], lr["status"]))

    for key, what in sorted(known_seen.items()):
        print("KNOWN-FINDING: property=%s %s [%s]" % (prop, what, key))
    for p in violations[:25]:
        print("VIOLATION property=%s replay=%s" % (prop, p))
    if len(violations) > 25:
        print("(%d further violations not listed; replay files are under %s)" % (len(violations) - 25, REPLAY_DIR))
    for e in harness_errors:
        print("HARNESS-ERROR property=%s %s" % (prop, e), file=sys.stderr)
    for n in not_exhausted:
        print("INCONCLUSIVE property=%s condition did not exhaust within its budget: %s" % (prop, n), file=sys.stderr)

    wall = time.perf_counter() - t0
    if write_evidence and not os.environ.get("VERIF_NOEVIDENCE"):
        ev = build_evidence(prop, tier, seed, conds, results, wall, len(violations), nreplays, extra, lemma_results,
                            sorted(known_seen))
        validate_and_write(prop, ev)
    if os.environ.get("VERIF_DEBUG"):
        for r in sorted(results, key=lambda r: -r.get("wall_s", 0.0))[:15]:
            print("   slow: %6.1fs %s" % (r.get("wall_s", 0.0), r["name"]))
    nex = sum(1 for r in results if r["verdict"] == "EXHAUSTED")
    print(
        "%s tier=%s: %d conditions, %d exhausted, %d partial, %d paths, %d z3 queries (%.1f s solver), wall %.1f s"
        % (
            prop,
            tier,
            len(results),
            nex,
            sum(1 for r in results if r["verdict"] == "PARTIAL"),
            sum(r["paths"] for r in results),
            sum(r["solver_queries"] for r in results),
            sum(r["solver_time_s"] for r in results),
            wall,
        )
    )
    if violations:
        return EXIT_VIOLATION
    if harness_errors:
        return EXIT_HARNESS
    return EXIT_OK


def _slug(s: str) -> str:
    import hashlib
    import re

    base = re.sub(r"[^A-Za-z0-9_.-]+", "_", s)[:60]
    return base + "_" + hashlib.sha1(s.encode()).hexdigest()[:8]


def build_evidence(
    prop: str,
    tier: str,
    seed: int,
    conds: typing.List[symx.Cond],
    results: typing.List[typing.Dict[str, typing.Any]],
    wall: float,
    nviol: int,
    nreplays: int,
    extra: typing.Optional[typing.Dict[str, typing.Any]],
    lemma_results: typing.Optional[typing.List[typing.Dict[str, typing.Any]]],
    known_seen: typing.List[str],
) -> typing.Dict[str, typing.Any]:
    groups = {}  # type: typing.Dict[str, typing.Dict[str, typing.Any]]
    functions = set()  # type: typing.Set[str]
    assumptions = set()  # type: typing.Set[str]
    stubs = set()  # type: typing.Set[str]
    for c, r in zip(conds, results):
        g = groups.setdefault(
            c.group,
            {"conditions": 0, "kind": c.kind, "paths": 0, "exhausted": 0, "partial": 0, "cex": 0, "wall_s": 0.0,
             "symbolic_variables": {k: t.__name__ for k, t in c.sig.items()}, "bounds": list(c.assumptions)},
        )
        g["conditions"] += 1
        g["paths"] += r["paths"]
        g["exhausted"] += r["verdict"] == "EXHAUSTED"
        g["partial"] += r["verdict"] == "PARTIAL"
        g["cex"] += len(r.get("cex", []))
        g["wall_s"] = round(g["wall_s"] + r.get("wall_s", 0.0), 2)
        functions.update(r.get("functions", []))
        assumptions.update("%s: %s" % (c.group, a) for a in c.assumptions)
        stubs.update(c.stubs)
        if c.fmtstub:
            stubs.add("message-formatting stub: str.__mod__ with symbolic arguments returns the template")
    samples = []
    seen_groups = set()  # type: typing.Set[str]
    for c, r in zip(conds, results):
        if c.group in seen_groups and not r.get("cex"):
            continue
        seen_groups.add(c.group)
        samples.append(
            {
                "condition": r["name"],
                "harness": "%s.%s" % (c.factory.__module__, c.factory.__name__),
                "scaffold": c.scaffold,
                "symbolic": {k: t.__name__ for k, t in c.sig.items()},
                "assumptions": list(c.assumptions),
                "verdict": r["verdict"],
                "paths": r["paths"],
                "representative_path_input": r.get("representative"),
                "witness": r.get("witness"),
                "counterexamples": r.get("cex", [])[:3],
            }
        )
        if len(samples) >= 40:
            break
    witness_runs = sum(1 for r in results if r.get("witness") and r["witness"]["outcome"] == "ok")
    cov = {
        "states": sum(r["paths"] for r in results),
        "transitions": sum(r["decisions"] for r in results),
        "traces_validated_against_impl": witness_runs + nreplays,
        "samples": samples
        or [{"note": "no symbolic-execution condition in this run", "lemmas": (lemma_results or [])[:3]}],
        "exhaustive": False,
        "engine": "crosshair-tool 0.0.110 explore_paths over /repo/pydsdl (z3 %s); verdict EXHAUSTED = decision "
        "tree exhausted with every path confirmed" % _z3_version(),
        "conditions": len(results),
        "exhausted": sum(1 for r in results if r["verdict"] == "EXHAUSTED"),
        "partial": sum(1 for r in results if r["verdict"] == "PARTIAL"),
        "symbolic_conditions": sum(1 for c in conds if c.kind == "symbolic"),
        "choice_exhaustive_conditions": sum(1 for c in conds if c.kind == "choice"),
        "paths_reaching_assertion": sum(r["reached"] for r in results),
        "unknown_paths": sum(r.get("unknown_paths", 0) for r in results),
        "ignored_paths": sum(r.get("ignored_paths", 0) for r in results),
        "spurious_counterexamples": sum(r.get("spurious", 0) for r in results),
        "solver_queries": sum(r["solver_queries"] for r in results),
        "solver_time_s": round(sum(r["solver_time_s"] for r in results), 2),
        "cpu_wall_sum_s": round(sum(r.get("wall_s", 0.0) for r in results), 1),
        "functions_encoded": sorted(functions),
        "groups": groups,
        "stubs": sorted(stubs),
        "known_findings_seen": known_seen,
        "not_exhausted": [r["name"] for r in results if r["verdict"] not in ("EXHAUSTED", "CEX")][:50],
    }  # type: typing.Dict[str, typing.Any]
    if lemma_results is not None:
        cov["lemma_obligations"] = {
            "total": len(lemma_results),
            "discharged": sum(1 for x in lemma_results if x["status"] == "discharged"),
            "inconclusive": sum(1 for x in lemma_results if x["status"] not in ("discharged", "violated")),
            "solver_time_s": round(sum(x.get("time_s", 0.0) for x in lemma_results), 2),
            "list": [{k: v for k, v in x.items() if k != "smt2"} for x in lemma_results][:80],
        }
    if extra:
        cov.update(extra)
    return {
        "property_id": prop,
        "tier": tier,
        "seed": seed,
        "level": "model_checking",
        "coverage": cov,
        "assumptions": sorted(assumptions),
        "wall_s": round(wall, 2),
        "violations": nviol,
    }


def _z3_version() -> str:
    try:
        import z3

        return str(z3.get_version_string())
    except Exception:  # pylint: disable=broad-except
        return "?"


def validate_and_write(prop: str, ev: typing.Dict[str, typing.Any]) -> None:
    os.makedirs(EVIDENCE_DIR, exist_ok=True)
    try:
        import jsonschema

        with open("/root/.vp/EVIDENCE.schema.json") as f:
            jsonschema.validate(ev, json.load(f))
    except FileNotFoundError:
        pass
    with open(os.path.join(EVIDENCE_DIR, prop + ".json"), "w") as f:
        json.dump(ev, f, indent=1, default=str)
