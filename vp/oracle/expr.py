"""
O-EXPR: DSDL constant expressions as *trees*, with the Specification's operator table, plus a renderer that prints a
tree with minimal (or redundant) parentheses according to the Specification's precedence and associativity.
Nothing here parses text or calls pydsdl.

Tree nodes (JSON-able lists):
    ["atom", name]                 identifier resolved through the environment
    ["lit", text]                  literal (text as written); value from `literal_value`
    ["un", op, X]                  op in  ! + -
    ["bin", op, L, R]              op in  || && == != <= >= < > | ^ & + - * / % **
    ["attr", X, name]              X.name
    ["set", [X, ...]]              {X, ...}

Values: ("r", Fraction) | ("b", bool) | ("s", str) | ("set", kind, tuple-of-native) ; Undefined is raised for operand
combinations the Specification leaves undefined; OutsideClaim for cases the property does not cover (non-integer or
large exponents).

Precedence, lowest to highest (grammar.parsimonious / Specification table):
    1  || &&          left-assoc, ONE level
    2  !              prefix, operand at level >= 2
    3  == != <= >= < >  left-assoc
    4  | ^ &          left-assoc, ONE level
    5  + -            left-assoc
    6  * / %          left-assoc
    7  unary + -      operand at level >= 8
    8  **             left operand level >= 9, right operand level >= 7 (right-assoc)
    9  .              attribute, atoms, literals, parenthesised
"""

from __future__ import annotations

import fractions
import typing

Fr = fractions.Fraction


class Undefined(Exception):
    pass


class OutsideClaim(Exception):
    pass


LEVEL = {"||": 1, "&&": 1, "==": 3, "!=": 3, "<=": 3, ">=": 3, "<": 3, ">": 3, "|": 4, "^": 4, "&": 4, "+": 5, "-": 5,
         "*": 6, "/": 6, "%": 6, "**": 8}


def level(t: typing.Any) -> int:
    k = t[0]
    if k in ("atom", "lit", "attr", "set"):
        return 9
    if k == "un":
        return 2 if t[1] == "!" else 7
    return LEVEL[t[1]]


def render(t: typing.Any, redundant: bool = False, sp: str = " ") -> str:
    """Minimal parentheses (or every sub-expression parenthesised when redundant=True)."""

    def paren(x: typing.Any, need: bool) -> str:
        s = render(x, redundant, sp)
        if need or (redundant and x[0] not in ("atom", "lit")):
            return "(" + sp.strip(" ") + s + ")" if not sp.strip() else "(" + s + ")"
        return s

    k = t[0]
    if k == "atom":
        return str(t[1])
    if k == "lit":
        return str(t[1])
    if k == "set":
        return "{" + ("," + sp).join(render(x, redundant, sp) for x in t[1]) + "}"
    if k == "attr":
        return paren(t[1], level(t[1]) < 9) + "." + t[2]
    if k == "un":
        op, x = t[1], t[2]
        if op == "!":
            return "!" + paren(x, level(x) < 2)
        # unary + - take an ex_exponential operand (level >= 8)
        return op + paren(x, level(x) < 8)
    op, l, r = t[1], t[2], t[3]
    p = LEVEL[op]
    if op == "**":
        return paren(l, level(l) < 9) + sp + op + sp + paren(r, level(r) < 7)
    return paren(l, level(l) < p) + sp + op + sp + paren(r, level(r) <= p)


def literal_value(text: str) -> typing.Any:
    """Mathematical value of a literal as the Specification defines it (hand-decoded, no eval / int(x, 0))."""
    s = text.replace("_", "")
    if s in ("true", "false"):
        return ("b", s == "true")
    if s[0] in "'\"":
        return ("s", _unescape(s[1:-1]))
    low = s.lower()
    digits = "0123456789abcdef"
    for prefix, base in (("0b", 2), ("0o", 8), ("0x", 16)):
        if low.startswith(prefix):
            v = 0
            for ch in low[2:]:
                v = v * base + digits.index(ch)
            return ("r", Fr(v))
    if "." in low or "e" in low:
        mant, _, exp = low.partition("e")
        ip, _, fp = mant.partition(".")
        v = Fr(int(ip or "0")) + (Fr(int(fp), 10 ** len(fp)) if fp else Fr(0))
        if exp:
            e = int(exp)
            v = v * (Fr(10) ** e)
        return ("r", v)
    v = 0
    for ch in low:
        v = v * 10 + digits.index(ch)
    return ("r", Fr(v))


def _unescape(s: str) -> str:
    out = []
    i = 0
    simple = {"r": "\r", "n": "\n", "t": "\t", '"': '"', "'": "'", "\\": "\\"}
    while i < len(s):
        c = s[i]
        if c != "\\":
            out.append(c)
            i += 1
            continue
        e = s[i + 1]
        if e in "uU":
            n = 4 if e == "u" else 8
            out.append(chr(int(s[i + 2 : i + 2 + n], 16)))
            i += 2 + n
        else:
            out.append(simple[e.lower()])
            i += 2
    return "".join(out)


def _is_int(v: Fr) -> bool:
    return v.denominator == 1


def _pow(a: Fr, b: Fr) -> Fr:
    if not _is_int(b):
        raise OutsideClaim("non-integer exponent")
    e = b.numerator
    if not -8 <= e <= 8:
        raise OutsideClaim("exponent magnitude")
    if e >= 0:
        return Fr(a.numerator**e, a.denominator**e)
    if a == 0:
        raise Undefined("zero to a negative power")
    n, d = a.numerator, a.denominator
    if n < 0:
        n, d = -n, -d
    return Fr(d ** (-e), n ** (-e))


def _floor_mod(a: Fr, b: Fr) -> Fr:
    # a - b*floor(a/b), the Specification's modulo (sign follows the divisor), computed on integers
    num = a.numerator * b.denominator
    den = a.denominator * b.numerator
    # floor(num/den)
    q = num // den
    return a - b * q


def _scalar_binary(op: str, l: typing.Any, r: typing.Any) -> typing.Any:
    lk, rk = l[0], r[0]
    if lk == "r" and rk == "r":
        a, b = l[1], r[1]
        if op == "+":
            return ("r", a + b)
        if op == "-":
            return ("r", a - b)
        if op == "*":
            return ("r", a * b)
        if op == "/":
            if b == 0:
                raise Undefined("division by zero")
            return ("r", a / b)
        if op == "%":
            if b == 0:
                raise Undefined("modulo by zero")
            return ("r", _floor_mod(a, b))
        if op == "**":
            return ("r", _pow(a, b))
        if op in ("|", "^", "&"):
            if not (_is_int(a) and _is_int(b)):
                raise Undefined("bitwise operator on a non-integer")
            x, y = a.numerator, b.numerator
            return ("r", Fr(x | y if op == "|" else x ^ y if op == "^" else x & y))
        if op == "==":
            return ("b", a == b)
        if op == "!=":
            return ("b", a != b)
        if op == "<=":
            return ("b", a <= b)
        if op == ">=":
            return ("b", a >= b)
        if op == "<":
            return ("b", a < b)
        if op == ">":
            return ("b", a > b)
        raise Undefined(op)
    if lk == "b" and rk == "b":
        a, b = l[1], r[1]
        if op == "||":
            return ("b", a or b)
        if op == "&&":
            return ("b", a and b)
        if op == "==":
            return ("b", a == b)
        if op == "!=":
            return ("b", a != b)
        raise Undefined(op)
    if lk == "s" and rk == "s":
        if op == "+":
            return ("s", l[1] + r[1])
        if op == "==":
            return ("b", l[1] == r[1])
        if op == "!=":
            return ("b", l[1] != r[1])
        raise Undefined(op)
    raise Undefined("operand types %s %s %s" % (lk, op, rk))


def _mkset(kind: str, elems: typing.Iterable[typing.Any]) -> typing.Any:
    uniq = []  # type: typing.List[typing.Any]
    for e in elems:
        if not any(e == u for u in uniq):
            uniq.append(e)
    if not uniq:
        raise Undefined("empty set")
    return ("set", kind, tuple(uniq))


def _contains(s: typing.Any, x: typing.Any) -> bool:
    return any(x == y for y in s[2])


def binary(op: str, l: typing.Any, r: typing.Any) -> typing.Any:
    lk, rk = l[0], r[0]
    if lk == "set" and rk == "set":
        if l[1] != r[1]:
            raise Undefined("sets of different element types")
        sub = all(_contains(r, x) for x in l[2])
        sup = all(_contains(l, x) for x in r[2])
        if op == "==":
            return ("b", sub and sup)
        if op == "!=":
            return ("b", not (sub and sup))
        if op == "<=":
            return ("b", sub)
        if op == ">=":
            return ("b", sup)
        if op == "<":
            return ("b", sub and not sup)
        if op == ">":
            return ("b", sup and not sub)
        if op == "|":
            return _mkset(l[1], list(l[2]) + list(r[2]))
        if op == "&":
            return _mkset(l[1], [x for x in l[2] if _contains(r, x)])
        if op == "^":
            return _mkset(l[1], [x for x in l[2] if not _contains(r, x)] + [x for x in r[2] if not _contains(l, x)])
        raise Undefined(op)
    if lk == "set" or rk == "set":
        if op not in ("+", "-", "*", "/", "%", "**"):
            raise Undefined("set with scalar under %s" % op)
        if lk == "set":
            res = [_scalar_binary(op, (l[1], x), r) for x in l[2]]
        else:
            res = [_scalar_binary(op, l, (r[1], x)) for x in r[2]]
        kinds = {x[0] for x in res}
        assert len(kinds) == 1
        return _mkset(res[0][0], [x[1] for x in res])
    return _scalar_binary(op, l, r)


def unary(op: str, x: typing.Any) -> typing.Any:
    if op == "!":
        if x[0] != "b":
            raise Undefined("! on non-boolean")
        return ("b", not x[1])
    if x[0] != "r":
        raise Undefined("unary %s on %s" % (op, x[0]))
    return ("r", x[1] if op == "+" else -x[1])


def attribute(x: typing.Any, name: str) -> typing.Any:
    if x[0] != "set":
        raise Undefined("attribute of non-set")
    if name == "count":
        return ("r", Fr(len(x[2])))
    if name in ("min", "max"):
        if x[1] != "r":
            if len(x[2]) == 1:
                # "determined by sequential application of <": with one element nothing is applied - ambiguous
                raise OutsideClaim("min/max of a single-element non-rational set")
            raise Undefined("min/max of a non-rational set")
        m = x[2][0]
        for y in x[2][1:]:
            if (y < m) if name == "min" else (y > m):
                m = y
        return ("r", m)
    raise Undefined("attribute " + name)


def evaluate(t: typing.Any, env: typing.Mapping[str, typing.Any]) -> typing.Any:
    k = t[0]
    if k == "atom":
        if t[1] not in env:
            raise Undefined("unknown identifier")
        return env[t[1]]
    if k == "lit":
        return literal_value(t[1])
    if k == "set":
        vals = [evaluate(x, env) for x in t[1]]
        if not vals:
            raise Undefined("empty set")
        kinds = {v[0] for v in vals}
        if len(kinds) != 1:
            raise Undefined("heterogeneous set")
        kind = vals[0][0]
        if kind == "set":
            return _mkset("set", [v for v in vals])
        return _mkset(kind, [v[1] for v in vals])
    if k == "attr":
        return attribute(evaluate(t[1], env), t[2])
    if k == "un":
        return unary(t[1], evaluate(t[2], env))
    return binary(t[1], evaluate(t[2], env), evaluate(t[3], env))


def atoms(t: typing.Any) -> typing.List[str]:
    k = t[0]
    if k == "atom":
        return [t[1]]
    if k == "lit":
        return []
    if k == "set":
        return [a for x in t[1] for a in atoms(x)]
    if k == "attr":
        return atoms(t[1])
    if k == "un":
        return atoms(t[2])
    return atoms(t[2]) + atoms(t[3])


def sensitive_atoms(t: typing.Any, inside: bool = False) -> typing.Set[str]:
    """
    Atoms that must range over a small choice domain for the engine's sake: anything in the right operand of / % **
    (a symbolic gcd forks without bound) and anything under a bitwise operator (CrossHair realises | ^ &).
    """
    k = t[0]
    if k == "atom":
        return {t[1]} if inside else set()
    if k == "lit":
        return set()
    if k == "set":
        out = set()  # type: typing.Set[str]
        for x in t[1]:
            out |= sensitive_atoms(x, inside)
        return out
    if k == "attr":
        return sensitive_atoms(t[1], inside)
    if k == "un":
        return sensitive_atoms(t[2], inside)
    op = t[1]
    if op in ("|", "^", "&"):
        return sensitive_atoms(t[2], True) | sensitive_atoms(t[3], True)
    if op in ("/", "%", "**"):
        return sensitive_atoms(t[2], inside or op == "**") | sensitive_atoms(t[3], True)
    return sensitive_atoms(t[2], inside) | sensitive_atoms(t[3], inside)
