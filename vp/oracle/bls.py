"""
O-BLS: finite-set semantics of bit length sets, written from the definition (never calls pydsdl).

A tree is a nested list:
    ["leaf", n]            n leaf values taken from the argument list, in order
    ["pad", r, T]          each element rounded up to a multiple of r
    ["cat", T1, T2, ...]   element-wise sums over the cartesian product
    ["uni", T1, T2, ...]   union
    ["rep", k, T]          k-fold multiset sums
    ["rng", k, T]          union of j-fold sums for j in 0..k

`expand` returns the multiset of elements as a list of Python ints (which may be symbolic proxies): duplicates
are harmless for every consumer below.  Everything is written with +, *, // and % by concrete constants only.
"""

from __future__ import annotations

import itertools
import typing

Tree = typing.List[typing.Any]


def nleaves(t: Tree) -> int:
    if t[0] == "leaf":
        return int(t[1])
    if t[0] in ("pad", "rep", "rng"):
        return nleaves(t[2])
    return sum(nleaves(c) for c in t[1:])


def pad(x: typing.Any, r: int) -> typing.Any:
    return -((-x) // r) * r


def expand(t: Tree, leaves: typing.List[typing.Any]) -> typing.List[typing.Any]:
    out, rest = _expand(t, list(leaves))
    assert not rest
    return out


def _expand(t: Tree, leaves: typing.List[typing.Any]) -> typing.Tuple[typing.List[typing.Any], typing.List[typing.Any]]:
    op = t[0]
    if op == "leaf":
        n = int(t[1])
        return leaves[:n], leaves[n:]
    if op == "pad":
        ch, rest = _expand(t[2], leaves)
        return [pad(x, int(t[1])) for x in ch], rest
    if op in ("rep", "rng"):
        ch, rest = _expand(t[2], leaves)
        k = int(t[1])
        out = []  # type: typing.List[typing.Any]
        for j in ([k] if op == "rep" else range(k + 1)):
            for el in itertools.combinations_with_replacement(range(len(ch)), j):
                s = 0  # type: typing.Any
                for i in el:
                    s = s + ch[i]
                out.append(s)
        return out, rest
    chs = []
    rest = leaves
    for c in t[1:]:
        e, rest = _expand(c, rest)
        chs.append(e)
    if op == "uni":
        return [x for e in chs for x in e], rest
    if op == "cat":
        out = []
        for el in itertools.product(*chs):
            s = 0
            for x in el:
                s = s + x
            out.append(s)
        return out, rest
    raise ValueError(op)


def smin(xs: typing.List[typing.Any]) -> typing.Any:
    m = xs[0]
    for x in xs[1:]:
        if x < m:
            m = x
    return m


def smax(xs: typing.List[typing.Any]) -> typing.Any:
    m = xs[0]
    for x in xs[1:]:
        if x > m:
            m = x
    return m


def same_members(got: typing.List[typing.Any], want: typing.List[typing.Any]) -> bool:
    """Set equality of two lists (duplicates allowed) using == only."""
    for g in got:
        if not any(g == w for w in want):
            return False
    for w in want:
        if not any(g == w for g in got):
            return False
    return True


def distinct_count(xs: typing.List[typing.Any]) -> int:
    seen = []  # type: typing.List[typing.Any]
    for x in xs:
        if not any(x == s for s in seen):
            seen.append(x)
    return len(seen)


def fold_sumset(residues: typing.Iterable[int], j: int, d: int) -> typing.Set[int]:
    """j-fold sumset of a set of residues in Z_d (concrete)."""
    s = {x % d for x in residues}
    out = {0}
    for _ in range(j):
        out = {(a + b) % d for a in out for b in s}
    return out


def reduce_count(k: typing.Any, d: int) -> typing.Any:
    """
    A count j <= 2d-1 with the same j-fold sumset in Z_d as k, for every non-empty S: j = k if k <= 2d-1, else the
    member of [d, 2d-1] congruent to k.  Justified by lemma (L): (j)S == (j+d)S for all j >= d-1 (see vp/lemma.py).
    """
    if k <= 2 * d - 1:
        return k
    return d + (k % d)
