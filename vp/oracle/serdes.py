"""
O-SERDES: the Specification's wire encoding over type specs (vp/types.py), written with integer arithmetic only.

The serialized stream is one non-negative integer N: bit i of the stream (LSB-first within each byte, little-endian
across bytes) is bit i of N.  A field of width w at bit offset o contributes (v mod 2**w) * 2**o; decoding is
(N // 2**o) mod 2**w.  Nothing here calls pydsdl.  Floats use the interpreter's struct module on concrete values only.

Values: bool -> bool; integers -> int; float -> float; arrays -> list (byte arrays -> bytes, utf8 arrays -> str);
structure -> {"f<i>": v} (padding has no key); union -> {"f<k>": v}; delimited -> the inner value.
"""

from __future__ import annotations

import struct
import typing

from . import layout as L

Spec = typing.Any


class Reject(Exception):
    """The representation must be rejected (array length above capacity, bad tag, delimiter header too large)."""


def int_range(spec: str) -> typing.Tuple[int, int]:
    w = L.prim_width(spec)
    if spec.startswith("i"):
        return -(2 ** (w - 1)), 2 ** (w - 1) - 1
    return 0, 2**w - 1


def is_float(spec: typing.Any) -> bool:
    return isinstance(spec, str) and (spec.startswith("f") or spec.startswith("tf"))


def is_trunc(spec: str) -> bool:
    return spec.startswith("t") or spec in ("byte", "utf8")


def cast(spec: str, v: typing.Any) -> typing.Any:
    """The value that must come back after a round trip (cast-mode semantics)."""
    if spec == "bool":
        return True if v else False
    if is_float(spec):
        w = L.prim_width(spec)
        fmt = {16: "<e", 32: "<f", 64: "<d"}[w]
        return struct.unpack(fmt, int(raw_bits(spec, v)).to_bytes(w // 8, "little"))[0]
    lo, hi = int_range(spec)
    w = L.prim_width(spec)
    if is_trunc(spec):
        return v % 2**w
    if v < lo:
        return lo
    if v > hi:
        return hi
    return v


def raw_bits(spec: str, v: typing.Any) -> typing.Any:
    """Unsigned w-bit pattern of a primitive value."""
    w = L.prim_width(spec)
    if spec == "bool":
        return 1 if v else 0
    if spec.startswith("void"):
        return 0
    if is_float(spec):
        fmt = {16: "<e", 32: "<f", 64: "<d"}[w]
        x = float(v)
        if not is_trunc(spec) and x == x and abs(x) != float("inf"):
            mx = {16: 65504.0, 32: 3.4028234663852886e38, 64: 1.7976931348623157e308}[w]
            x = max(-mx, min(mx, x))
        try:
            data = struct.pack(fmt, x)
        except OverflowError:
            data = struct.pack(fmt, float("inf") if x > 0 else float("-inf"))
        return int.from_bytes(data, "little")
    return cast(spec, v) % 2**w


class Writer:
    def __init__(self) -> None:
        self.n = 0  # type: typing.Any
        self.pos = 0

    def put(self, bits: typing.Any, w: int) -> None:
        self.n = self.n + bits * 2**self.pos
        self.pos += w

    def align(self, a: int) -> None:
        self.pos = L.pad(self.pos, a)


def encode_into(wr: Writer, spec: Spec, v: typing.Any) -> None:
    if isinstance(spec, str):
        wr.put(raw_bits(spec, v), L.prim_width(spec))
        return
    op = spec[0]
    if op in ("farr", "varr"):
        elem = spec[1]
        if isinstance(v, str):
            items = list(v.encode("utf-8"))  # type: typing.List[typing.Any]
        else:
            items = list(v)
        if op == "varr":
            wr.put(len(items), max(L.prefix_width(int(spec[2])), L.alignment(elem)))
        for x in items:
            encode_into(wr, elem, x)
        return
    if op == "struct":
        for i, f in enumerate(spec[1]):
            wr.align(L.alignment(f))
            if isinstance(f, str) and f.startswith("void"):
                wr.put(0, L.prim_width(f))
            else:
                encode_into(wr, f, v["f%d" % i])
        wr.align(L.alignment(spec))
        return
    if op == "union":
        (key,) = list(v.keys())
        k = int(key[1:])
        wr.put(k, max([L.tag_width(len(spec[1]))] + [L.alignment(f) for f in spec[1]]))
        encode_into(wr, spec[1][k], v[key])
        wr.align(L.alignment(spec))
        return
    if op == "delim":
        inner = Writer()
        encode_into(inner, spec[1], v)
        nbytes = -((-inner.pos) // 8)
        wr.put(nbytes, 32)
        wr.put(inner.n, 8 * nbytes)
        return
    raise ValueError(spec)


def encode(spec: Spec, v: typing.Any, with_header: bool = False) -> typing.Tuple[typing.Any, int]:
    """(N, bit length) of the top-level representation (a delimited top-level type is written bare unless asked)."""
    wr = Writer()
    if spec[0] == "delim" and not with_header:
        encode_into(wr, spec[1], v)
    else:
        encode_into(wr, spec, v)
    return wr.n, wr.pos


def to_bytes(n: typing.Any, nbits: int) -> typing.Any:
    nbytes = -((-nbits) // 8)
    return n.to_bytes(nbytes, "little") if nbytes else b""


def roundtrip_value(spec: Spec, v: typing.Any) -> typing.Any:
    """What deserialize(serialize(v)) must return."""
    if isinstance(spec, str):
        return cast(spec, v)
    op = spec[0]
    if op in ("farr", "varr"):
        if spec[1] == "utf8":
            return v if isinstance(v, str) else bytes(v).decode("utf-8")
        if spec[1] == "byte" and isinstance(v, list):
            return bytes([cast("byte", x) for x in v])
        if spec[1] == "byte":
            return bytes(cast("byte", x) for x in v) if not isinstance(v, (bytes, str)) else (
                v.encode("utf-8") if isinstance(v, str) else v)
        return [roundtrip_value(spec[1], x) for x in v]
    if op == "struct":
        return {"f%d" % i: roundtrip_value(f, v["f%d" % i]) for i, f in enumerate(spec[1])
                if not (isinstance(f, str) and f.startswith("void"))}
    if op == "union":
        (key,) = list(v.keys())
        return {key: roundtrip_value(spec[1][int(key[1:])], v[key])}
    return roundtrip_value(spec[1], v)


# ------------------------------------------------------------------------------------------------------------------


class Reader:
    """n = the whole input as an integer; nbits = 8*len(input); limit = absolute bit position bound (or None)."""

    def __init__(self, n: typing.Any, nbits: int, pos: int = 0, limit: typing.Optional[int] = None) -> None:
        self.n, self.nbits, self.pos, self.limit = n, nbits, pos, limit

    def get(self, w: int) -> typing.Any:
        end = self.nbits if self.limit is None else min(self.nbits, self.limit)
        avail = max(0, min(w, end - self.pos))
        v = (self.n // 2**self.pos) % 2**avail if avail > 0 else 0
        self.pos += w
        return v

    def align(self, a: int) -> None:
        self.pos = L.pad(self.pos, a)

    def remaining(self) -> int:
        end = self.nbits if self.limit is None else self.limit
        return max(0, end - self.pos)


def decode_from(rd: Reader, spec: Spec) -> typing.Any:
    if isinstance(spec, str):
        w = L.prim_width(spec)
        raw = rd.get(w)
        if spec == "bool":
            return raw != 0
        if spec.startswith("void"):
            return None
        if is_float(spec):
            fmt = {16: "<e", 32: "<f", 64: "<d"}[w]
            return struct.unpack(fmt, int(raw).to_bytes(w // 8, "little"))[0]
        if spec.startswith("i"):
            return raw - 2**w if raw >= 2 ** (w - 1) else raw
        return raw
    op = spec[0]
    if op in ("farr", "varr"):
        elem, cap = spec[1], int(spec[2])
        if op == "farr":
            n = cap
        else:
            length = rd.get(max(L.prefix_width(cap), L.alignment(elem)))
            if length > cap:
                raise Reject("array length above capacity")
            n = None
            for k in range(cap + 1):
                if length == k:
                    n = k
            assert n is not None
        items = [decode_from(rd, elem) for _ in range(n)]
        if elem == "utf8":
            return bytes(items).decode("utf-8")  # UnicodeDecodeError is a ValueError: allowed rejection
        if elem == "byte":
            return bytes(items)
        return items
    if op == "struct":
        out = {}
        for i, f in enumerate(spec[1]):
            rd.align(L.alignment(f))
            x = decode_from(rd, f)
            if not (isinstance(f, str) and f.startswith("void")):
                out["f%d" % i] = x
        rd.align(L.alignment(spec))
        return out
    if op == "union":
        nv = len(spec[1])
        tag = rd.get(max([L.tag_width(nv)] + [L.alignment(f) for f in spec[1]]))
        if tag >= nv:
            raise Reject("union tag out of range")
        k = None
        for i in range(nv):
            if tag == i:
                k = i
        assert k is not None
        x = decode_from(rd, spec[1][k])
        rd.align(L.alignment(spec))
        return {"f%d" % k: x}
    if op == "delim":
        hdr = rd.get(32)
        if hdr * 8 > rd.remaining():
            raise Reject("delimiter header exceeds the remaining data")
        # hdr is bounded by remaining/8: enumerate to obtain a concrete sub-limit
        size = None
        for k in range(rd.remaining() // 8 + 1):
            if hdr == k:
                size = k
        assert size is not None
        sub = Reader(rd.n, rd.nbits, rd.pos, rd.pos + 8 * size)
        rd.pos += 8 * size
        return decode_from(sub, spec[1])
    raise ValueError(spec)


def decode(spec: Spec, data: typing.Any, nbytes: int, with_header: bool = False) -> typing.Any:
    n = int.from_bytes(data, "little") if nbytes else 0
    rd = Reader(n, 8 * nbytes)
    if spec[0] == "delim" and not with_header:
        return decode_from(rd, spec[1])
    return decode_from(rd, spec)


# ------------------------------------------------------------------------------------------------------------------
# building values from a flat list of integers (symbolic or not)


def slots(spec: Spec) -> int:
    """Number of integer slots consumed by make_value (fixed per spec)."""
    if isinstance(spec, str):
        return 0 if spec.startswith("void") else 1
    op = spec[0]
    if op == "farr":
        return int(spec[2]) * slots(spec[1])
    if op == "varr":
        return 1 + int(spec[2]) * slots(spec[1])
    if op == "struct":
        return sum(slots(f) for f in spec[1])
    if op == "union":
        return 1 + sum(slots(f) for f in spec[1])
    return slots(spec[1])


def make_value(spec: Spec, it: typing.Iterator[typing.Any], pick: typing.Callable[[typing.Any, int, int], typing.Any],
               spread: int = 2) -> typing.Any:
    """
    Consumes slots(spec) integers.  Integer leaves accept values within `spread` times their range on both sides
    (returns None via StopIteration-free protocol: raises OutOfDomain when an argument is outside the domain).
    """
    if isinstance(spec, str):
        if spec.startswith("void"):
            return None
        v = next(it)
        if spec == "bool":
            c = pick(v, 0, 1)
            if c is None:
                raise OutOfDomain()
            return bool(c)
        if spec == "utf8":
            c = pick(v, 0, len(UTF8_UNITS) - 1)
            if c is None:
                raise OutOfDomain()
            return UTF8_UNITS[c]
        if is_float(spec):
            c = pick(v, 0, len(FLOATS) - 1)
            if c is None:
                raise OutOfDomain()
            return FLOATS[c]
        lo, hi = int_range(spec)
        span = (hi - lo + 1) * spread
        if not lo - span <= v <= hi + span:
            raise OutOfDomain()
        return v
    op = spec[0]
    if op == "farr":
        return _collect(spec[1], [make_value(spec[1], it, pick, spread) for _ in range(int(spec[2]))])
    if op == "varr":
        cap = int(spec[2])
        n = pick(next(it), 0, cap)
        items = [make_value(spec[1], it, pick, spread) for _ in range(cap)]
        if n is None:
            raise OutOfDomain()
        return _collect(spec[1], items[:n])
    if op == "struct":
        out = {}
        for i, f in enumerate(spec[1]):
            x = make_value(f, it, pick, spread)
            if not (isinstance(f, str) and f.startswith("void")):
                out["f%d" % i] = x
        return out
    if op == "union":
        k = pick(next(it), 0, len(spec[1]) - 1)
        vals = [make_value(f, it, pick, spread) for f in spec[1]]
        if k is None:
            raise OutOfDomain()
        return {"f%d" % k: vals[k]}
    return make_value(spec[1], it, pick, spread)


def _collect(elem: Spec, items: typing.List[typing.Any]) -> typing.Any:
    if elem == "utf8":
        return "".join(items)
    return items  # a list of ints is accepted for byte arrays


class OutOfDomain(Exception):
    pass


FLOATS = [0.0, -0.0, 1.0, -2.5, 65504.0, 65520.0, 1e-8, 3.4028234663852886e38, 3.5e38, 1e308, float("inf"),
          float("-inf"), 5e-324, 6.1e-5]

UTF8_UNITS = ["A", "\x00", "\x7f"]
