"""
O-LAYOUT: the Cyphal Specification's layout rules over type *specs* (see vp/types.py), never calling pydsdl.

  primitive / void of width w : {w}, alignment 1
  fixed array [n] of E        : n-fold sums of E, alignment of E
  variable array [<=c] of E   : L + union over k <= c of k-fold sums of E, L = smallest of 8/16/32/64 with
                                2**L - 1 >= c (and not smaller than E's alignment)
  structure                   : fields placed sequentially, each padded to its alignment; finally padded to the
                                structure's alignment max(8, field alignments)
  union of n variants         : T + union of variants, T = smallest of 8/16/32/64 able to hold n - 1 (not smaller than
                                any variant's alignment), padded to alignment
  delimited, extent X         : 32 + {0, 8, ..., X} (header not smaller than alignment); X % 8 == 0, X >= inner extent

`interval` works on symbolic capacities / extents (returns min, max, alignment, extent as expressions);
`enumerate_set` needs concrete parameters and returns the explicit set.
"""

from __future__ import annotations

import itertools
import typing

Spec = typing.Any


def prim_width(spec: str) -> int:
    if spec in ("bool",):
        return 1
    if spec in ("byte", "utf8"):
        return 8
    digits = "".join(ch for ch in spec if ch.isdigit())
    return int(digits)


def prefix_width(cap: typing.Any) -> int:
    if cap <= 2**8 - 1:
        return 8
    if cap <= 2**16 - 1:
        return 16
    if cap <= 2**32 - 1:
        return 32
    return 64


def tag_width(n: typing.Any) -> int:
    """Smallest of 8/16/32/64 able to hold the largest variant index n - 1."""
    if n - 1 <= 2**8 - 1:
        return 8
    if n - 1 <= 2**16 - 1:
        return 16
    if n - 1 <= 2**32 - 1:
        return 32
    return 64


def pad(x: typing.Any, r: int) -> typing.Any:
    return -((-x) // r) * r


def alignment(spec: Spec) -> int:
    if isinstance(spec, str):
        return 1
    if spec[0] in ("farr", "varr"):
        return alignment(spec[1])
    if spec[0] in ("struct", "union"):
        return max([8] + [alignment(f) for f in spec[1]])
    return alignment(spec[1])  # delimited: that of the inner composite


def interval(spec: Spec, params: typing.Mapping[str, typing.Any]) -> typing.Tuple[typing.Any, typing.Any]:
    """(min, max) of the bit length set; exact because every operation involved is monotone."""

    def val(x: typing.Any) -> typing.Any:
        return params[x] if isinstance(x, str) else x

    if isinstance(spec, str):
        w = prim_width(spec)
        return w, w
    op = spec[0]
    if op == "farr":
        lo, hi = interval(spec[1], params)
        n = val(spec[2])
        return lo * n, hi * n
    if op == "varr":
        lo, hi = interval(spec[1], params)
        c = val(spec[2])
        L = max(prefix_width(c), alignment(spec[1]))
        return L, L + hi * c
    if op == "struct":
        lo, hi = 0, 0
        for f in spec[1]:
            a = alignment(f)
            flo, fhi = interval(f, params)
            lo, hi = pad(lo, a) + flo, pad(hi, a) + fhi
        a = alignment(spec)
        return pad(lo, a), pad(hi, a)
    if op == "union":
        t = max([tag_width(len(spec[1]))] + [alignment(f) for f in spec[1]])
        ivs = [interval(f, params) for f in spec[1]]
        lo, hi = ivs[0]
        for flo, fhi in ivs[1:]:
            if flo < lo:
                lo = flo
            if fhi > hi:
                hi = fhi
        a = alignment(spec)
        return pad(t + lo, a), pad(t + hi, a)
    if op == "delim":
        ext = extent(spec, params)
        h = max(32, alignment(spec))
        return h, h + ext
    raise ValueError(spec)


def extent(spec: Spec, params: typing.Mapping[str, typing.Any]) -> typing.Any:
    if not isinstance(spec, str) and spec[0] == "delim":
        if len(spec) > 2 and spec[2] is not None:
            return params[spec[2]] if isinstance(spec[2], str) else spec[2]
        return interval(spec[1], params)[1]
    return interval(spec, params)[1]


def enumerate_set(spec: Spec) -> typing.Set[int]:
    if isinstance(spec, str):
        return {prim_width(spec)}
    op = spec[0]
    if op == "farr":
        return _fold(enumerate_set(spec[1]), int(spec[2]))
    if op == "varr":
        e = enumerate_set(spec[1])
        L = max(prefix_width(int(spec[2])), alignment(spec[1]))
        out = set()  # type: typing.Set[int]
        for k in range(int(spec[2]) + 1):
            out |= {L + x for x in _fold(e, k)}
        return out
    if op == "struct":
        cur = {0}
        for f in spec[1]:
            a = alignment(f)
            fs = enumerate_set(f)
            cur = {pad(x, a) + y for x in cur for y in fs}
        return {pad(x, alignment(spec)) for x in cur}
    if op == "union":
        t = max([tag_width(len(spec[1]))] + [alignment(f) for f in spec[1]])
        out = set()
        for f in spec[1]:
            out |= {pad(t + x, alignment(spec)) for x in enumerate_set(f)}
        return out
    if op == "delim":
        ext = extent(spec, {})
        h = max(32, alignment(spec))
        return {h + 8 * j for j in range(ext // 8 + 1)}
    raise ValueError(spec)


def _fold(s: typing.Set[int], k: int) -> typing.Set[int]:
    out = {0}
    for _ in range(k):
        out = {a + b for a in out for b in s}
    return out


def field_offsets(spec: Spec, base: typing.Set[int]) -> typing.List[typing.Set[int]]:
    """
    Start positions (sets) of every field of a composite spec, relative to the base offset set padded to the type's
    alignment: structure fields sequentially (each padded to its own alignment), union variants all at base + tag,
    delimited = inner fields shifted by the header.
    """
    if spec[0] == "delim":
        h = max(32, alignment(spec))
        # the delimited container pads the base to its alignment (8) implicitly through the inner composite
        return field_offsets(spec[1], {pad(b, alignment(spec)) + h for b in base})
    a = alignment(spec)
    cur = {pad(b, a) for b in base}
    if spec[0] == "union":
        t = max([tag_width(len(spec[1]))] + [alignment(f) for f in spec[1]])
        return [{x + t for x in cur} for _ in spec[1]]
    out = []
    for f in spec[1]:
        fa = alignment(f)
        cur = {pad(x, fa) for x in cur}
        out.append(set(cur))
        fs = enumerate_set(f)
        cur = {x + y for x in cur for y in fs}
    return out


def n_fields(spec: Spec) -> int:
    return len((spec[1] if spec[0] != "delim" else spec[1][1]))


_ = itertools
