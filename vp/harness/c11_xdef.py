"""
C11 - port-ID and minor-version consistency rules hold for every set of definitions.
Real code driven: _namespace._ensure_no_fixed_port_id_collisions, _ensure_minor_version_compatibility(_pairwise),
on real StructureType / DelimitedType / ServiceType objects with symbolic versions, port-IDs and extents.
"""

from __future__ import annotations

import typing

from ..symx import Cond, pick
from .. import types as T

PROP = "C11"

# kind: 0 sealed message, 1 delimited message, 2 service (sealed req/resp), 3 service (delimited request),
#       4 service (delimited response)
KINDS = 5


def _section(name: str, ver: typing.Any, sealed: bool, ext8: typing.Any, parent: bool, wide: bool) -> typing.Any:
    import pydsdl

    inner = T.composite("struct", [T.prim("u16" if wide else "u8")], name=name, version=ver, has_parent_service=parent)
    if sealed:
        return inner
    return pydsdl.DelimitedType(inner, 8 * ext8)


def mk(kind: int, name: str, major: typing.Any, minor: typing.Any, pid: typing.Any, ext8: typing.Any,
       wide: bool) -> typing.Any:
    """Real composite of the given kind.  ext8 = extent/8 of the delimited section (if any)."""
    import pydsdl

    ver = (major, minor)
    if kind in (0, 1):
        inner = T.composite("struct", [T.prim("u16" if wide else "u8")], name=name, version=ver, fixed_port_id=pid)
        return inner if kind == 0 else pydsdl.DelimitedType(inner, 8 * ext8)
    req = _section(name + ".Request", ver, kind != 3, ext8, True, wide)
    rsp = _section(name + ".Response", ver, kind != 4, ext8, True, False)
    return pydsdl.ServiceType(req, rsp, pid)


def _is_service(kind: int) -> bool:
    return kind >= 2


def oracle_collision(a: typing.Dict[str, typing.Any], b: typing.Dict[str, typing.Any]) -> bool:
    """True iff the pair violates the fixed port-ID rule as stated in C11."""
    if _is_service(a["kind"]) != _is_service(b["kind"]):
        return False
    if a["pid"] is None or b["pid"] is None or a["pid"] != b["pid"]:
        return False
    if a["name"] == b["name"] and (a["major"] == b["major"] or a["major"] == 0 or b["major"] == 0):
        return False
    return True


def _sections(d: typing.Dict[str, typing.Any]) -> typing.List[typing.Tuple[bool, typing.Any]]:
    """(sealed, extent) for the message itself, or for request and response of a service."""
    k = d["kind"]
    small = 16 if d["wide"] else 8
    if k == 0:
        return [(True, small)]
    if k == 1:
        return [(False, 8 * d["ext8"])]
    req = (True, small) if k != 3 else (False, 8 * d["ext8"])
    rsp = (True, 8) if k != 4 else (False, 8 * d["ext8"])
    return [req, rsp]


def oracle_minor(a: typing.Dict[str, typing.Any], b: typing.Dict[str, typing.Any]) -> bool:
    """True iff two minor versions under one (name, major) are incompatible as stated in C11."""
    if _is_service(a["kind"]) != _is_service(b["kind"]):
        return True
    # port-ID: same, or added in the newer minor; never changed or removed
    pa, pb = a["pid"], b["pid"]
    if pa is not None and pb is not None:
        if pa != pb:
            return True
    elif pa is not None or pb is not None:
        newer = a if a["minor"] > b["minor"] else b
        if newer["pid"] is None:
            return True
    if a["major"] >= 1:
        for (sa, ea), (sb, eb) in zip(_sections(a), _sections(b)):
            if sa != sb or ea != eb:
                return True
    return False


def _decode(kind: int, same_name: bool, major: typing.Any, minor: typing.Any, has_pid: bool, pid: typing.Any,
            ext8: typing.Any, wide: bool, which: str) -> typing.Dict[str, typing.Any]:
    return {
        "kind": kind,
        "name": "ns.A" if (same_name or which == "a") else "ns.B",
        "major": major,
        "minor": minor,
        "pid": pid if has_pid else None,
        "ext8": ext8,
        "wide": wide,
    }


def _valid(d: typing.Dict[str, typing.Any]) -> bool:
    if not (0 <= d["major"] <= 255 and 0 <= d["minor"] <= 255 and d["major"] + d["minor"] > 0):
        return False
    if d["pid"] is not None and not 0 <= d["pid"] <= (511 if _is_service(d["kind"]) else 8191):
        return False
    return 2 <= d["ext8"] <= 2**40


def _real(d: typing.Dict[str, typing.Any]) -> typing.Any:
    return mk(d["kind"], d["name"], d["major"], d["minor"], d["pid"], d["ext8"], d["wide"])


def make_collision(ka: int, kb: int, same_name: bool):
    """Every (major, minor, port-ID present/absent, port-ID value) for a pair of definitions of fixed kinds."""
    import pydsdl
    from pydsdl import _namespace as N

    def h(ma: int, na: int, mb: int, nb: int, ha: bool, hb: bool, pa: int, pb: int) -> typing.Any:
        a = _decode(ka, same_name, ma, na, ha, pa, 4, False, "a")
        b = _decode(kb, same_name, mb, nb, hb, pb, 4, False, "b")
        if not (_valid(a) and _valid(b)):
            return None
        if same_name and ma == mb and na == nb:
            return None  # one file cannot exist twice
        ra, rb = _real(a), _real(b)
        for order in ([ra, rb], [rb, ra]):
            try:
                N._ensure_no_fixed_port_id_collisions(order)
                rejected = False
            except pydsdl.InvalidDefinitionError as ex:
                rejected = True
                if ex.path is None:
                    return "rejection carries no path"
            if rejected != oracle_collision(a, b):
                return "collision check rejected=%r, rule says %r" % (rejected, oracle_collision(a, b))
        return True

    return h


def make_minor_pair(ka: int, kb: int, wide_a: bool, wide_b: bool, ra: int = 0, rb: int = 0):
    """_ensure_minor_version_compatibility_pairwise on two minors of one (name, major), everything numeric symbolic."""
    import pydsdl
    from pydsdl import _namespace as N

    def h(major: int, na: int, nb: int, ha: bool, hb: bool, pa: int, pb: int, ea: int, eb: int) -> typing.Any:
        if not (ea >= 1 and eb >= 1):
            return None
        # extent/8 = 8*e + r: the residue class of the repetition count is scaffolding (the constructor's own
        # alignment assertions enumerate it otherwise), the magnitude is symbolic
        a = _decode(ka, True, major, na, ha, pa, 8 * ea + ra, wide_a, "a")
        b = _decode(kb, True, major, nb, hb, pb, 8 * eb + rb, wide_b, "b")
        if not (_valid(a) and _valid(b)) or na == nb:
            return None
        xa, xb = _real(a), _real(b)
        want = oracle_minor(a, b)
        for x, y in ((xa, xb), (xb, xa)):
            try:
                N._ensure_minor_version_compatibility_pairwise(x, y)
                rejected = False
            except pydsdl.InvalidDefinitionError:
                rejected = True
            if rejected != want:
                return "pairwise(%s) rejected=%r, rule says %r" % ("a,b" if x is xa else "b,a", rejected, want)
        return True

    return h


MAJORS = [0, 1, 2, 255]


def make_minor_group(kinds: typing.List[int], names: typing.List[int], majors: typing.Optional[typing.List[int]] = None):
    """
    _ensure_minor_version_compatibility over 2-3 definitions: grouping by (name, major) - majors from a choice domain
    (the code keys a dict by them, which realises a symbolic value), minors / port-IDs / extents symbolic.
    """
    import pydsdl
    from pydsdl import _namespace as N

    n = len(kinds)

    def h(mj0: int, mj1: int, mj2: int, n0: int, n1: int, n2: int, h0: bool, h1: bool, h2: bool, p0: int, p1: int,
          p2: int, e0: int, e1: int, e2: int) -> typing.Any:
        mjs, mns, hs, ps, es = [mj0, mj1, mj2], [n0, n1, n2], [h0, h1, h2], [p0, p1, p2], [e0, e1, e2]
        ds = []
        for i in range(n):
            if majors is not None:
                mi = majors[i]  # scaffold: index into MAJORS
            else:
                mi = pick(mjs[i], 0, len(MAJORS) - 1)
                if mi is None:
                    return None
            if not es[i] >= 1:
                return None
            d = {"kind": kinds[i], "name": "ns.N%d" % names[i], "major": MAJORS[mi], "minor": mns[i],
                 "pid": ps[i] if hs[i] else None, "ext8": 8 * es[i], "wide": False}
            if not _valid(d):
                return None
            ds.append(d)
        for i in range(n):
            for j in range(i):
                if (ds[i]["name"], ds[i]["major"]) == (ds[j]["name"], ds[j]["major"]) and ds[i]["minor"] == ds[j]["minor"]:
                    return None
        want = False
        for i in range(n):
            for j in range(n):
                if i != j and ds[i]["name"] == ds[j]["name"] and ds[i]["major"] == ds[j]["major"]:
                    if oracle_minor(ds[i], ds[j]):
                        want = True
        reals = [_real(d) for d in ds]
        try:
            N._ensure_minor_version_compatibility(reals)
            rejected = False
        except pydsdl.InvalidDefinitionError:
            rejected = True
        if rejected != want:
            return "group check rejected=%r, rule says %r" % (rejected, want)
        return True

    return h


def conditions(tier: str, seed: int) -> typing.List[Cond]:
    thorough = tier == "thorough"
    out = []  # type: typing.List[Cond]
    A = ["majors, minors in 0..255 (not 0.0)", "port-ID absent or any valid value of the kind",
         "extent = 8*(8*e + r), e >= 1 symbolic up to 2**40, r scaffolding"]
    kinds = [0, 1, 2] if not thorough else [0, 1, 2, 3, 4]
    for ka in kinds:
        for kb in kinds:
            for same in (True, False):
                out.append(
                    Cond(PROP, "c11.collision", make_collision, {"ka": ka, "kb": kb, "same_name": same},
                         {"ma": int, "na": int, "mb": int, "nb": int, "ha": bool, "hb": bool, "pa": int, "pb": int},
                         assumptions=A, fmtstub=True, budget=180.0,
                         witness={"ma": 1, "na": 0, "mb": 2, "nb": 0, "ha": True, "hb": True, "pa": 7, "pb": 7})
                )
    for ka in range(KINDS):
        for kb in range(KINDS):
            for wa, wb, ra, rb in ((False, False, 0, 0), (False, True, 0, 0), (False, False, 3, 3), (False, False, 0, 5)):
                if (wb or ra or rb) and not thorough and (ka, kb) not in ((0, 0), (2, 2), (0, 1), (1, 1), (3, 3)):
                    continue
                out.append(
                    Cond(PROP, "c11.minor-pair", make_minor_pair,
                         {"ka": ka, "kb": kb, "wide_a": wa, "wide_b": wb, "ra": ra, "rb": rb},
                         {"major": int, "na": int, "nb": int, "ha": bool, "hb": bool, "pa": int, "pb": int, "ea": int,
                          "eb": int},
                         assumptions=A, fmtstub=True, budget=180.0,
                         witness={"major": 1, "na": 0, "nb": 1, "ha": False, "hb": True, "pa": 1, "pb": 1, "ea": 4,
                                  "eb": 4})
                )
    groups = [([0, 0], [0, 0]), ([0, 1], [0, 0]), ([0, 2], [0, 0]), ([1, 1], [0, 0]), ([0, 0], [0, 1])]
    if thorough:
        groups += [([0, 0, 0], [0, 0, 0]), ([1, 1, 0], [0, 0, 1]), ([2, 2, 2], [0, 0, 0]), ([1, 1, 1], [0, 0, 0]), ([0, 1, 2], [0, 0, 0]), ([3, 4], [0, 0]),
                   ([2, 2, 0], [0, 1, 1])]
    trios = [([0, 0, 0], [0, 0, 0], [1, 1, 1]), ([1, 1, 1], [0, 0, 0], [1, 1, 1]), ([2, 2, 2], [0, 0, 0], [2, 2, 2]),
             ([0, 0, 0], [0, 0, 0], [0, 0, 0]), ([0, 0, 0], [0, 0, 0], [1, 1, 2]),
             # members of one (name, major) group separated by another definition in the list (grouping must not rely on order)
             ([0, 0, 0], [0, 1, 0], [1, 1, 1]), ([0, 0, 0], [0, 0, 0], [1, 2, 1])]
    sig = {}  # type: typing.Dict[str, type]
    for nm, t in (("mj", int), ("n", int), ("h", bool), ("p", int), ("e", int)):
        for i in range(3):
            sig["%s%d" % (nm, i)] = t
    wit = {k: (1 if t is int else False) for k, t in sig.items()}
    wit.update({"n0": 1, "n1": 2, "n2": 3, "e0": 4, "e1": 4, "e2": 4})
    for ks, ns, mj in trios:
        if ks == [1, 1, 1] and not thorough:
            continue
        out.append(Cond(PROP, "c11.minor-trio", make_minor_group, {"kinds": ks, "names": ns, "majors": mj}, sig,
                        assumptions=A + ["three definitions of one name; majors fixed by the scaffold to %r" % [MAJORS[i] for i in mj]],
                        fmtstub=True, budget=600.0, witness=wit))
    for ks, ns in groups:
        out.append(Cond(PROP, "c11.minor-group", make_minor_group, {"kinds": ks, "names": ns}, sig,
                        assumptions=A + ["majors from {0, 1, 2, 255} (choice)"], fmtstub=True,
                        budget=300.0 if len(ks) == 2 else 1500.0,
                        witness=wit))
    return out


def extra_evidence(tier: str) -> typing.Dict[str, typing.Any]:
    return {
        "bounds": {"definitions per set": "2 (collision, pairwise), up to 3 (grouping)",
                   "kinds": "sealed/delimited message, service with sealed or delimited request/response"},
        "outside": ["sets of more than 3 definitions", "which list (targets vs lookups) the reader passes - see C19"],
    }
