"""
C04 - constant expressions evaluate exactly, with the Specification's precedence.
Real code driven: grammar expression rules, _ParseTreeProcessor (operator chains, unary forms, literal visitors),
pydsdl._expression.* - through the real DSDLDefinition.read on an in-memory definition `@capture <expr>\n@sealed`.
"""

from __future__ import annotations

import fractions
import itertools
import random
import typing

from ..symx import Cond, pick
from ..oracle import expr as X
from .. import textio

PROP = "C04"
Fr = fractions.Fraction

ARITH = ["+", "-", "*", "/", "%", "**"]
BITW = ["|", "^", "&"]
CMP = ["==", "!=", "<=", ">=", "<", ">"]
LOGIC = ["||", "&&"]


def _to_real(v: typing.Any) -> typing.Any:
    from pydsdl import _expression as E

    if v[0] == "r":
        return E.Rational(v[1])
    if v[0] == "b":
        return E.Boolean(v[1])
    if v[0] == "s":
        return E.String(v[1])
    return E.Set([_to_real((v[1], x)) for x in v[2]])


def _same(real: typing.Any, v: typing.Any) -> bool:
    from pydsdl import _expression as E

    if v[0] == "r":
        if not isinstance(real, E.Rational):
            return False
        nv = real.native_value
        return nv.numerator * v[1].denominator == v[1].numerator * nv.denominator
    if v[0] == "b":
        return isinstance(real, E.Boolean) and real.native_value == v[1]
    if v[0] == "s":
        return isinstance(real, E.String) and real.native_value == v[1]
    if not isinstance(real, E.Set):
        return False
    got = [x for x in real]
    if len(got) != len(v[2]):
        return False
    for w in v[2]:
        if not any(_same(g, (v[1], w)) for g in got):
            return False
    return True


def evaluate_real(text: str, env: typing.Mapping[str, typing.Any]) -> typing.Tuple[bool, typing.Any]:
    """(defined, value) from the real reader; InvalidDefinitionError => (False, exception)."""
    import pydsdl

    renv = {k: _to_real(v) for k, v in env.items()}
    try:
        _, cap = textio.read_text("@capture " + text + "\n@sealed\n", renv)
    except pydsdl.InvalidDefinitionError as ex:
        return False, ex
    if len(cap.values) != 1:
        raise AssertionError("capture directive not delivered exactly once")
    return True, cap.values[0]


def check_tree(tree: typing.Any, env: typing.Mapping[str, typing.Any], variants: typing.Any = True) -> typing.Any:
    try:
        want = X.evaluate(tree, env)
        defined = True
    except X.Undefined:
        want, defined = None, False
    except X.OutsideClaim:
        return None
    texts = [X.render(tree, False, " ")]
    if variants is True:
        texts += [X.render(tree, False, ""), X.render(tree, True, "  ")]
    elif variants == 1:
        texts = [X.render(tree, False, "")]
    elif variants == 2:
        texts = [X.render(tree, True, "  ")]
    for text in texts:
        ok, got = evaluate_real(text, env)
        if ok != defined:
            return "%r: real code says %s, Specification says %s" % (
                text, "defined" if ok else "undefined (%s)" % type(got).__name__, "defined" if defined else "undefined")
        if defined and not _same(got, want):
            return "%r evaluates to %s, want %s" % (text, got, want)
    return True


def make_tree(tree: typing.Any, types: typing.Dict[str, str], small: typing.List[str], lo: int = -2, hi: int = 2,
              variants: typing.Any = True):
    """
    Expression tree over atoms; types[name] in {"int", "bool"}; atoms listed in `small` range over [lo, hi] as choice
    variables, the other integer atoms are unbounded symbolic integers.
    """
    names = sorted(types)

    all_concrete = all(types[n] == "bool" or n in small for n in names)

    def h(*vals: typing.Any) -> typing.Any:
        env = {}
        for n, v in zip(names, vals):
            if types[n] == "bool":
                env[n] = ("b", (True if v else False) if all_concrete else v)
            elif n in small:
                c = pick(v, lo, hi)
                if c is None:
                    return None
                env[n] = ("r", Fr(c))
            else:
                env[n] = ("r", Fr(v))
        if all_concrete:
            # every input of this path is an ordinary Python value: run the real code natively
            return textio.native(check_tree, tree, env, variants)
        return check_tree(tree, env, variants)

    return _arity(h, names)


def _arity(h: typing.Callable[..., typing.Any], names: typing.List[str]) -> typing.Callable[..., typing.Any]:
    src = "def w(%s):\n    return h(%s)\n" % (", ".join(names), ", ".join(names))
    ns = {"h": h}  # type: typing.Dict[str, typing.Any]
    exec(src, ns)  # pylint: disable=exec-used
    return ns["w"]  # type: ignore


KINDS = ["int", "frac", "bool", "str", "set-int", "set-bool", "set-str", "empty-set", "hetero-set", "ident"]


def _kind_tree(kind: str, name: str) -> typing.Any:
    if kind in ("int", "frac", "bool"):
        return ["atom", name]
    if kind == "str":
        return ["lit", "'x%s'" % name]
    if kind == "set-int":
        return ["set", [["atom", name], ["lit", "7"]]]
    if kind == "set-bool":
        return ["set", [["lit", "true"]]]
    if kind == "set-str":
        return ["set", [["lit", "'p'"], ["lit", "'q'"]]]
    if kind == "empty-set":
        return ["set", []]
    if kind == "hetero-set":
        return ["set", [["lit", "1"], ["lit", "true"]]]
    return ["atom", "undefined_identifier"]


def make_types(op: str, lk: str, rk: str):
    """Operand kinds x operator: defined <=> the Specification defines it; every rejection is InvalidDefinitionError."""

    def h(a: int, b: int, p: bool, q: bool) -> typing.Any:
        ca, cb = pick(a, -2, 2), pick(b, -1, 1)
        if ca is None or cb is None:
            return None
        env = {}
        for n, k, c, f in (("a", lk, ca, p), ("b", rk, cb, q)):
            if k in ("int", "set-int"):
                env[n] = ("r", Fr(c))
            elif k == "frac":
                env[n] = ("r", Fr(2 * c + 1, 2))
            elif k == "bool":
                env[n] = ("b", True if f else False)
        if op in ("!", "u+", "u-"):
            tree = ["un", op[-1], _kind_tree(lk, "a")]
        elif op.startswith("."):
            tree = ["attr", _kind_tree(lk, "a"), op[1:]]
        else:
            tree = ["bin", op, _kind_tree(lk, "a"), _kind_tree(rk, "b")]
        return textio.native(check_tree, tree, env, False)

    return h


def make_sets(op: str, shape: str):
    """Set algebra / element-wise application with small symbolic elements (hashing realises them)."""

    def h(a: int, b: int, c: int, d: int) -> typing.Any:
        vs = [pick(x, -1, 1) for x in (a, b, c, d)]
        if any(v is None for v in vs):
            return None
        env = {n: ("r", Fr(v)) for n, v in zip("abcd", vs)}  # type: ignore
        sa = ["set", [["atom", "a"], ["atom", "b"]]]
        sb = ["set", [["atom", "c"], ["atom", "d"]]]
        if shape == "set-set":
            tree = ["bin", op, sa, sb]
        elif shape == "set-scalar":
            tree = ["bin", op, sa, ["atom", "c"]]
        elif shape == "scalar-set":
            tree = ["bin", op, ["atom", "c"], sa]
        else:
            tree = ["attr", ["bin", "|", sa, sb], op]
        return textio.native(check_tree, tree, env, False)

    return h


LITERALS = ["0", "7", "1_000", "0x_1f", "0XfF", "0b101", "0B1_0", "0o17", "0O7_7", "1.5", ".5", "2.", "1e2", "1.5e-1",
            "1_0.2_5E+1", "00", "0_0", "123456789012345678901234567890", "0x7fffffffffffffffffff", "1e-3", "5e0"]


def make_literal(lit: str, op: str):
    """Literal spelling is scaffolding; the literal is used inside a symbolic expression `lit op a`."""

    def h(a: int) -> typing.Any:
        env = {"a": ("r", Fr(a))}
        r1 = check_tree(["bin", op, ["lit", lit], ["atom", "a"]], env, variants=False)
        if r1 is not True:
            return r1
        return check_tree(["bin", "==", ["lit", lit], ["lit", lit]], env, variants=False)

    return h


STRINGS = ["''", '""', "'abc'", '"a b"', r"'\n\t\r'", r"'\''", r'"\""', r"'\\'", r"'A'", r"'\U0001f600'",
           r"'éx'", r"'\N'", r"'a\Tb'", "'#not a comment'", '"it\'s"']


def make_string(lit: str):
    def h(flag: bool) -> typing.Any:
        env = {}  # type: typing.Dict[str, typing.Any]
        tree = ["bin", "+", ["lit", lit], ["lit", "'z'" if flag else '""']]
        r1 = check_tree(tree, env, variants=False)
        if r1 is not True:
            return r1
        return check_tree(["bin", "==", tree, ["lit", lit]], env, variants=False)

    return h


NFC_PIECES = ["e", "\u0301", "\u00e9", "e\u0301", "A", "\u030a", "\u00c5", "n", "\u0303", "\u00f1", "\u1100", "\u1161", "\uac00"]


def make_string_nfc(spelling: str):
    """
    (p1 + p2) == p3 and != over string pieces that compose under Unicode normalisation: strings are compared in NFC
    (the Specification's rule), wherever the operands come from (literal, escape, concatenation).
    """
    import unicodedata

    n = len(NFC_PIECES)

    def lit(s: str) -> str:
        if spelling == "escape":
            return "'" + "".join("\\u%04x" % ord(c) for c in s) + "'"
        return '"' + s + '"'

    def concrete(i: int, j: int, k: int) -> typing.Any:
        a, b, c = NFC_PIECES[i], NFC_PIECES[j], NFC_PIECES[k]
        want = unicodedata.normalize("NFC", a + b) == unicodedata.normalize("NFC", c)
        for op, w in (("==", want), ("!=", not want)):
            text = "(%s + %s) %s %s" % (lit(a), lit(b), op, lit(c))
            ok, got = evaluate_real(text, {})
            if not ok:
                return "%s is undefined (%s)" % (text, type(got).__name__)
            if bool(got.native_value) != w:
                return "%s evaluates to %s, want %s" % (text, got, w)
        return True

    def h(i: int, j: int, k: int) -> typing.Any:
        a, b, c = pick(i, 0, n - 1), pick(j, 0, n - 1), pick(k, 0, n - 1)
        if a is None or b is None or c is None:
            return None
        return textio.native(concrete, a, b, c)

    return h


def make_sink(sink: str):
    """The evaluated value reaches constants, array capacities, @assert, @print and @extent unchanged."""
    import pydsdl

    def h(a: int, b: int) -> typing.Any:
        from pydsdl import _expression as E

        env = {"a": E.Rational(a), "b": E.Rational(b)}
        if sink == "const":
            if not -(2**62) <= a + b * 2 <= 2**62:
                return None
            t, _ = textio.read_text("int64 K = a + b * 2\n@sealed\n", env)
            k = t.constants[0].value.native_value
            return True if (k.denominator == 1 and k.numerator == a + b * 2) else "constant value"
        if sink == "capacity":
            if not (1 <= a - b <= 2**30):
                return None
            t, _ = textio.read_text("uint8[<=a - b] x\nuint8[a - b] y\nuint8[<a - b + 1] z\n@sealed\n", env)
            caps = [f.data_type.capacity for f in t.fields]
            return True if all(c == a - b for c in caps) else "capacity %r" % caps
        if sink == "assert":
            try:
                textio.read_text("@assert a * 2 < b\n@sealed\n", env)
                passed = True
            except pydsdl.InvalidDefinitionError:
                passed = False
            return True if passed == (a * 2 < b) else "assert outcome"
        if sink == "print":
            ca, cb = pick(a, -12, 12), pick(b, -1, 1)
            if ca is None or cb is None:
                return None
            a, b = ca, cb  # decimal formatting of a symbolic integer enumerates digits: choice domain instead
            env = {"a": E.Rational(a), "b": E.Rational(b)}
            _, cap = textio.read_text("@print a - b\n@sealed\n", env)
            if len(cap.prints) != 1:
                return "print delivered %d times" % len(cap.prints)
            line, s = cap.prints[0]
            if line != 1:
                return "print line"
            return True if s == str(a - b) else "print text %r" % (cap.prints[0],)
        if sink == "extent":
            if not 1 <= a <= 2**40:
                return None
            t, _ = textio.read_text("uint8 x\n@extent a * 8 * 8\n", env)
            return True if (t.extent == a * 64 and isinstance(t, pydsdl.DelimitedType)) else "extent"
        raise ValueError(sink)

    return h


def _pair_trees() -> typing.List[typing.Tuple[typing.Any, typing.Dict[str, str]]]:
    """All type-correct depth-2 trees op1(op2(x, y), z) and op1(x, op2(y, z))."""
    INT_OPS = ARITH + BITW
    out = []
    A, B, C = ["atom", "a"], ["atom", "b"], ["atom", "c"]
    P, Q, R = ["atom", "p"], ["atom", "q"], ["atom", "r"]
    # integer-valued or comparison op1 over an integer-valued op2
    for op1 in INT_OPS + CMP:
        for op2 in INT_OPS:
            out.append((["bin", op1, ["bin", op2, A, B], C], {"a": "int", "b": "int", "c": "int"}))
            out.append((["bin", op1, A, ["bin", op2, B, C]], {"a": "int", "b": "int", "c": "int"}))
    # boolean op1 over comparison / logic op2
    for op1 in LOGIC + ["==", "!="]:
        for op2 in CMP:
            out.append((["bin", op1, ["bin", op2, A, B], P], {"a": "int", "b": "int", "p": "bool"}))
            out.append((["bin", op1, P, ["bin", op2, A, B]], {"a": "int", "b": "int", "p": "bool"}))
        for op2 in LOGIC + ["==", "!="]:
            out.append((["bin", op1, ["bin", op2, P, Q], R], {"p": "bool", "q": "bool", "r": "bool"}))
            out.append((["bin", op1, P, ["bin", op2, Q, R]], {"p": "bool", "q": "bool", "r": "bool"}))
    # comparison chains (left-assoc; the second comparison sees a boolean: defined only for == / !=)
    for op1 in CMP:
        for op2 in ("<", "=="):
            out.append((["bin", op1, ["bin", op2, A, B], P], {"a": "int", "b": "int", "p": "bool"}))
    return out


def _unary_trees() -> typing.List[typing.Tuple[typing.Any, typing.Dict[str, str]]]:
    A, B = ["atom", "a"], ["atom", "b"]
    P, Q = ["atom", "p"], ["atom", "q"]
    I2 = {"a": "int", "b": "int"}
    B2 = {"p": "bool", "q": "bool"}
    out = []
    for u in ("+", "-"):
        for op in ARITH + BITW + CMP:
            out.append((["un", u, ["bin", op, A, B]], I2))  # -(a op b)
            out.append((["bin", op, ["un", u, A], B], I2))  # (-a) op b   [for ** the parentheses are required]
            out.append((["bin", op, A, ["un", u, B]], I2))  # a op -b
        out.append((["un", u, ["un", "-", A]], {"a": "int"}))
        out.append((["un", u, ["un", "+", A]], {"a": "int"}))
    for op in LOGIC + ["==", "!="]:
        out.append((["un", "!", ["bin", op, P, Q]], B2))
        out.append((["bin", op, ["un", "!", P], Q], B2))
        out.append((["bin", op, P, ["un", "!", Q]], B2))
    for op in CMP:
        out.append((["un", "!", ["bin", op, A, B]], I2))
    out.append((["un", "!", ["un", "!", P]], {"p": "bool"}))
    out.append((["un", "-", ["un", "!", P]], {"p": "bool"}))
    out.append((["un", "!", ["un", "-", A]], {"a": "int"}))
    return out


def _random_tree(rnd: random.Random, want: str, depth: int, names: typing.Dict[str, str]) -> typing.Any:
    if depth == 0 or rnd.random() < 0.15:
        pool = ["a", "b", "c"] if want == "int" else ["p", "q"]
        n = rnd.choice(pool)
        names[n] = want
        if want == "int" and rnd.random() < 0.25:
            return ["lit", rnd.choice(["2", "3", "0x10", "1.5", "0"])]
        return ["atom", n]
    if want == "int":
        if rnd.random() < 0.2:
            return ["un", rnd.choice("+-"), _random_tree(rnd, "int", depth - 1, names)]
        op = rnd.choice(ARITH + ["+", "-", "*"] + BITW)
        return ["bin", op, _random_tree(rnd, "int", depth - 1, names), _random_tree(rnd, "int", depth - 1, names)]
    r = rnd.random()
    if r < 0.2:
        return ["un", "!", _random_tree(rnd, "bool", depth - 1, names)]
    if r < 0.6:
        return ["bin", rnd.choice(CMP), _random_tree(rnd, "int", depth - 1, names),
                _random_tree(rnd, "int", depth - 1, names)]
    return ["bin", rnd.choice(LOGIC + ["==", "!="]), _random_tree(rnd, "bool", depth - 1, names),
            _random_tree(rnd, "bool", depth - 1, names)]


def conditions(tier: str, seed: int) -> typing.List[Cond]:
    rnd = random.Random(seed)
    thorough = tier == "thorough"
    out = []  # type: typing.List[Cond]

    vcount = [0]

    def add_tree(group: str, tree: typing.Any, types: typing.Dict[str, str], budget: float = 300.0) -> None:
        types = {k: v for k, v in types.items() if k in X.atoms(tree)}
        small = sorted(X.sensitive_atoms(tree) & {k for k, v in types.items() if v == "int"})
        sig = {k: (bool if types[k] == "bool" else int) for k in sorted(types)}
        wit = {k: (True if types[k] == "bool" else 2) for k in types}  # type: typing.Optional[typing.Dict[str, typing.Any]]
        if group == "c04.depth3":
            try:
                X.evaluate(tree, {k: (("b", True) if types[k] == "bool" else ("r", Fr(2))) for k in types})
            except X.OutsideClaim:
                wit = None
            except X.Undefined:
                pass
        ass = ["integer atoms %s: unbounded" % [k for k in types if types[k] == "int" and k not in small]]
        if small:
            ass.append("atoms %s in [-2, 2] (choice): right operands of / %% **, operands of ** and of | ^ &" % small)
        vcount[0] += 1
        # quick: minimal parentheses always, the two formatting variants rotate over the conditions
        variants = True if thorough else [0, 0, 1, 0, 2][vcount[0] % 5]  # type: typing.Any
        if not thorough and variants in (1, 2) and not small:
            variants = True  # cheap condition (single path): all three renderings
        out.append(Cond(PROP, group, make_tree,
                        {"tree": tree, "types": types, "small": small, "lo": -2, "hi": 2, "variants": variants}, sig,
                        assumptions=ass, witness=wit, budget=budget, fmtstub=True,
                        stubs=["identifier injection (vp/textio.py): atoms a, b, c, p, q resolve to symbolic values",
                               "@capture directive handled by the harness builder subclass"]))

    pairs = _pair_trees()
    if not thorough:
        # every (op1, op2) combination is kept, one of the two shapes chosen by the seed
        # (both shapes are kept where they are what tells grouping apart: operators of one precedence level, and
        # the cheap all-boolean trees)
        keep = []
        for i in range(0, len(pairs) - 12, 2):
            t0 = pairs[i][0]
            inner = t0[2][1] if t0[2][0] == "bin" else t0[3][1]
            same_level = X.LEVEL.get(t0[1]) == X.LEVEL.get(inner)
            all_bool = all(v == "bool" for v in pairs[i][1].values())
            if same_level or all_bool:
                keep += [pairs[i], pairs[i + 1]]
            else:
                keep.append(pairs[i + rnd.randrange(2)])
        pairs = keep + pairs[-12:]
    for tree, types in pairs:
        add_tree("c04.pair", tree, types)
    for tree, types in _unary_trees():
        add_tree("c04.unary", tree, types)
    for _ in range(150 if thorough else 30):
        names = {}  # type: typing.Dict[str, str]
        tree = _random_tree(rnd, rnd.choice(["int", "bool"]), 3, names)
        if len(X.sensitive_atoms(tree)) <= 3 and tree[0] != "atom":
            add_tree("c04.depth3", tree, names, budget=300.0)

    ops2 = ["+", "*", "/", "%", "**", "|", "&", "==", "<", ">=", "||", "&&"] if not thorough else ARITH + BITW + CMP + LOGIC
    kinds = KINDS if thorough else ["int", "frac", "bool", "str", "set-int", "set-str", "empty-set", "hetero-set", "ident"]
    for op in ops2:
        for lk, rk in itertools.product(kinds, kinds):
            if not thorough and lk not in ("int", "frac", "bool", "str", "set-int") and rk not in ("int", "bool"):
                continue
            if op == "**" and rk == "frac" and lk in ("int", "frac", "set-int"):
                continue  # non-integer exponent: outside the claim
            out.append(Cond(PROP, "c04.types", make_types, {"op": op, "lk": lk, "rk": rk},
                            {"a": int, "b": int, "p": bool, "q": bool}, kind="choice",
                            assumptions=["numeric operands c or (2c+1)/2, left c in -2..2, right c in -1..1; booleans free"],
                            witness={"a": 1, "b": 1, "p": True, "q": False}, budget=200.0, fmtstub=True))
    for op in ("!", "u+", "u-", ".min", ".max", ".count", ".nope"):
        for lk in KINDS:
            if op in (".min", ".max") and lk == "set-bool":
                continue  # single-element non-rational set: ambiguous in the Specification, outside the claim
            out.append(Cond(PROP, "c04.types", make_types, {"op": op, "lk": lk, "rk": "int"},
                            {"a": int, "b": int, "p": bool, "q": bool}, kind="choice",
                            assumptions=["numeric operands c or (2c+1)/2, left c in -2..2, right c in -1..1; booleans free"],
                            witness={"a": 1, "b": 1, "p": True, "q": False}, budget=200.0, fmtstub=True))
    for op in ["|", "&", "^", "==", "!=", "<", "<=", ">", ">="]:
        out.append(Cond(PROP, "c04.sets", make_sets, {"op": op, "shape": "set-set"},
                        {"a": int, "b": int, "c": int, "d": int}, kind="choice",
                        assumptions=["set elements in -1..1 (choice: set hashing realises them)"],
                        witness={"a": 1, "b": 0, "c": 1, "d": -1}, budget=400.0, fmtstub=True))
    for op in ARITH:
        for shape in ("set-scalar", "scalar-set"):
            out.append(Cond(PROP, "c04.sets", make_sets, {"op": op, "shape": shape},
                            {"a": int, "b": int, "c": int, "d": int}, kind="choice",
                            assumptions=["set elements in -1..1 (choice)"],
                            witness={"a": 1, "b": 0, "c": 1, "d": -1}, budget=400.0, fmtstub=True))
    for at in ("min", "max", "count"):
        out.append(Cond(PROP, "c04.sets", make_sets, {"op": at, "shape": "attr"},
                        {"a": int, "b": int, "c": int, "d": int}, kind="choice",
                        assumptions=["set elements in -1..1 (choice)"],
                        witness={"a": 1, "b": 0, "c": 1, "d": -1}, budget=400.0, fmtstub=True))
    for lit in LITERALS:
        for op in ("+", "<", "*") if thorough and "e-" not in lit else ("+",):
            out.append(Cond(PROP, "c04.literal", make_literal, {"lit": lit, "op": op}, {"a": int},
                            assumptions=["a unbounded"], witness={"a": 3}, budget=120.0, fmtstub=True))
    for lit in STRINGS:
        pass
    for sp in ("literal", "escape"):
        out.append(Cond(PROP, "c04.string-nfc", make_string_nfc, {"spelling": sp}, {"i": int, "j": int, "k": int}, kind="choice",
                        assumptions=["(p1 + p2) ==/!= p3 over %d string pieces (combining marks, precomposed letters, Hangul "
                                     "jamo), spelled literally or with \\u escapes" % len(NFC_PIECES)],
                        witness={"i": 0, "j": 1, "k": 2}, budget=900.0, need_exhaust=True))
    for lit in STRINGS:
        out.append(Cond(PROP, "c04.string", make_string, {"lit": lit}, {"flag": bool}, kind="choice",
                        assumptions=["string literal spelling is scaffolding"], witness={"flag": True}, budget=120.0))
    for sink in ("const", "capacity", "assert", "print", "extent"):
        out.append(Cond(PROP, "c04.sink", make_sink, {"sink": sink}, {"a": int, "b": int},
                        assumptions=["a, b symbolic within the sink's admissible range"],
                        witness={"a": 9, "b": 1}, budget=300.0, fmtstub=sink != "print"))
    return out


def extra_evidence(tier: str) -> typing.Dict[str, typing.Any]:
    return {
        "bounds": {"tree depth": "2 exhaustive over type-correct operator pairs; 3 seeded", "exponents": "integers |e| <= 8",
                   "divisor / exponent / bitwise operands": "[-2, 2]", "other integer atoms": "unbounded",
                   "renderings": "minimal parentheses with and without blanks, fully parenthesised with double blanks"},
        "outside": ["non-integer exponents (pydsdl goes through floats there)", "depth > 3",
                    "non-ASCII string comparison (NFC normalisation)"],
    }
