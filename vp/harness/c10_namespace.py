"""
C10 - namespace reading is complete, ordered and deterministic.
Real code driven: _dsdl.file_sort / get_definition_ordering_rank on SYMBOLIC versions; pydsdl.read_namespace and
pydsdl.read_files on scratch directory trees under an environment stub that permutes directory enumeration (Path.rglob)
and set iteration (the name `set` seen by _namespace, _namespace_reader, _dsdl), with every spelling of the directory
arguments; root-namespace nesting / name-collision detection on directory layouts.
"""

from __future__ import annotations

import contextlib
import itertools
import os
import typing
from pathlib import Path

from ..symx import Cond, pick
from .. import textio, model

PROP = "C10"

import logging as _logging

_logging.getLogger("pydsdl").setLevel(_logging.ERROR)  # the legacy-extension warning would flood the log

# ------------------------------------------------------------------------------------------------------------------
# c10.sort - symbolic versions

SORT_NAMES = [["ns.Legacy.Item", "ns.Message", "ns.Legacy.Item"], ["ns.a.Z", "ns.b", "ns.B.x"], ["ns.A", "ns.A", "ns.A"], ["ns.A", "ns.B", "ns.A"], ["ns.b", "ns.B", "ns.a"], ["ns.x.A", "ns.A", "ns.x.A"],
              ["z.A", "a.Z", "a.Z"]]


def make_sort(names: typing.List[str], on: str):
    def h(M0: int, m0: int, M1: int, m1: int, M2: int, m2: int) -> typing.Any:
        from pydsdl import _dsdl

        vs = [(M0, m0), (M1, m1), (M2, m2)]
        for M, m in vs:
            if not (0 <= M <= 255 and 0 <= m <= 255 and M + m > 0):
                return None
        if on == "definitions":
            items = [textio.MemDefinition(n, v, "@sealed\n", plain_file_name=True) for n, v in zip(names, vs)]
        else:
            from .. import types as T

            items = [T.composite("struct", [T.prim("u8")], name=n, version=v) for n, v in zip(names, vs)]
        out = _dsdl.file_sort(items)
        if len(out) != 3:
            return "length"
        for x in items:
            if sum(1 for y in out if y is x) != 1:
                return "not a permutation"
        for a, b in zip(out, out[1:]):
            ka = (a.full_name, a.version.major, a.version.minor)
            kb = (b.full_name, b.version.major, b.version.minor)
            if ka[0] > kb[0]:
                return "names out of order"
            if ka[0] == kb[0]:
                if ka[1] < kb[1]:
                    return "older major version first"
                if ka[1] == kb[1] and ka[2] < kb[2]:
                    return "older minor version first"
        return True

    return h


# ------------------------------------------------------------------------------------------------------------------
# scratch namespace

TREE = {
    "tgt/ns/A.1.0.dsdl": "ns.sub.B.1.0 b\ndep.D.1.0 d\n@extent 1024\n",
    "tgt/ns/A.1.1.dsdl": "uint8 x\n@extent 1024\n",
    "tgt/ns/A.2.0.dsdl": "A.1.1 prev\n@sealed\n",
    "tgt/ns/sub/B.1.0.dsdl": "dep.D.1.0 d\n@extent 256\n",
    "tgt/ns/sub/B.1.3.dsdl": "uint16 y\n@extent 256\n",
    "tgt/ns/sub/deep/C.0.1.uavcan": "bool legacy\n@sealed\n",
    "tgt/ns/Z.255.255.dsdl": "ns.sub.deep.C.0.1 c\n@sealed\n",
    "tgt/ns/100.Msg.1.0.dsdl": "uint8 v\n@sealed\n",
    "tgt/ns/aa/Lower.1.0.dsdl": "@sealed\n",
    "tgt/ns/Legacy/Item.1.0.dsdl": "@sealed\n",
    "tgt/ns/Legacy/Item.1.2.dsdl": "@sealed\n",
    "tgt/ns_ext/Ext.1.0.dsdl": "ns.A.1.1 a\n@sealed\n",
    "tgt/ns/notes.txt": "not a definition",
    "tgt/ns/sub/README.md": "not a definition",
    "lk/dep/D.1.0.dsdl": "dep.E.1.0 e\n@sealed\n",
    "lk/dep/E.1.0.dsdl": "uint8 e\n@extent 64\n",
    "lk/dep/E.1.1.dsdl": "uint8 e\nuint8 f\n@extent 64\n",
    "lk/dep/Unused.1.0.dsdl": "uint8 u\n@sealed\n",
}
DEPS = {
    ("ns.A", (1, 0)): [("ns.sub.B", (1, 0)), ("dep.D", (1, 0))],
    ("ns.A", (2, 0)): [("ns.A", (1, 1))],
    ("ns.sub.B", (1, 0)): [("dep.D", (1, 0))],
    ("ns.Z", (255, 255)): [("ns.sub.deep.C", (0, 1))],
    ("dep.D", (1, 0)): [("dep.E", (1, 0))],
}


def _key_of(rel: str) -> typing.Tuple[str, typing.Tuple[int, int]]:
    p = Path(rel)
    parts = p.name.split(".")[:-1]
    if len(parts) == 4:
        parts = parts[1:]
    ns = ".".join(p.parent.parts[1:])
    return ns + "." + parts[0], (int(parts[1]), int(parts[2]))


def _sorted_keys(keys: typing.Iterable[typing.Any]) -> typing.List[typing.Any]:
    return sorted(keys, key=lambda k: (k[0], -k[1][0], -k[1][1]))


TGT_KEYS = _sorted_keys(_key_of(r) for r in TREE if r.startswith("tgt/ns/") and r.endswith((".dsdl", ".uavcan")))
DEP_KEYS = _sorted_keys(_key_of(r) for r in TREE if r.startswith("lk/") and r.endswith((".dsdl", ".uavcan")))


def _closure(keys: typing.Iterable[typing.Any]) -> typing.Set[typing.Any]:
    seen = set()  # type: typing.Set[typing.Any]
    todo = list(keys)
    while todo:
        k = todo.pop()
        if k in seen:
            continue
        seen.add(k)
        todo += DEPS.get(k, [])
    return seen


class _Scratch:
    def __init__(self) -> None:
        self.root = model.scratch_dir("c10").resolve()
        model.write_tree(self.root, TREE)
        os.symlink(self.root / "tgt" / "ns", self.root / "link_ns")
        (self.root / "links").mkdir()
        os.symlink(self.root / "lk" / "dep", self.root / "links" / "dep")


ORDERS = ["asc", "desc", "rot", "len", "swap"]


def _permute(items: typing.List[typing.Any], how: str) -> typing.List[typing.Any]:
    items = sorted(items, key=repr)
    if how == "desc":
        items.reverse()
    elif how == "rot":
        k = len(items) // 2
        items = items[k:] + items[:k]
    elif how == "len":
        items.sort(key=lambda x: (len(repr(x)) % 3, repr(x)[::-1]))
    elif how == "swap":
        items = [x for pair in zip(items[1::2], items[::2]) for x in pair] + (items[-1:] if len(items) % 2 else [])
    return items


@contextlib.contextmanager
def environment(order: str) -> typing.Iterator[None]:
    """Models hash seed and directory enumeration order: set iteration and rglob results are permuted as `order`."""
    from pydsdl import _namespace, _namespace_reader, _dsdl

    class PermSet(set):  # type: ignore
        def __iter__(self) -> typing.Iterator[typing.Any]:
            return iter(_permute(list(set.__iter__(self)), order))

    orig_rglob = Path.rglob

    def rglob(self: Path, pattern: str, **kw: typing.Any) -> typing.Any:
        return iter(_permute(list(orig_rglob(self, pattern, **kw)), order))

    mods = [_namespace, _namespace_reader, _dsdl]
    Path.rglob = rglob  # type: ignore
    for m in mods:
        m.set = PermSet  # type: ignore
    try:
        yield
    finally:
        Path.rglob = orig_rglob  # type: ignore
        for m in mods:
            del m.set  # type: ignore


def _names(ts: typing.Iterable[typing.Any]) -> typing.List[typing.Any]:
    return [(t.full_name, (t.version.major, t.version.minor)) for t in ts]


ROOT_SPELLINGS = ["abs", "str", "rel", "rel-dot", "symlink", "dotdot"]
LOOKUP_SPELLINGS = ["abs", "rel", "symlink", "dup", "abs+rel", "with-root", "str", "single", "abs+symlink", "rel+dotdot"]


def _root_arg(sc: _Scratch, how: str) -> typing.Any:
    r = sc.root
    return {"abs": r / "tgt" / "ns", "str": str(r / "tgt" / "ns"), "rel": Path("tgt/ns"), "rel-dot": "./tgt/ns/",
            "symlink": r / "link_ns", "dotdot": r / "tgt" / ".." / "tgt" / "ns"}[how]


def _lookup_arg(sc: _Scratch, how: str) -> typing.Any:
    r = sc.root
    dep = r / "lk" / "dep"
    return {"abs": [dep], "rel": [Path("lk/dep")], "symlink": [r / "links" / "dep"], "dup": [dep, dep],
            "abs+rel": [dep, Path("lk/dep")], "with-root": [r / "tgt" / "ns", dep], "str": [str(dep)], "single": dep,
            "abs+symlink": [dep, r / "links" / "dep"], "rel+dotdot": ["lk/dep", str(r / "lk" / ".." / "lk" / "dep")]}[how]


_scratch = {}  # type: typing.Dict[int, _Scratch]


def _sc() -> _Scratch:
    pid = os.getpid()
    if pid not in _scratch:
        _scratch[pid] = _Scratch()
    return _scratch[pid]


_base = {}  # type: typing.Dict[int, typing.Any]


def _baseline(sc: _Scratch) -> typing.Any:
    if id(sc) not in _base:
        _base[id(sc)] = _baseline_(sc)
    return _base[id(sc)]


def _baseline_(sc: _Scratch) -> typing.Any:
    import pydsdl

    ts = pydsdl.read_namespace(sc.root / "tgt" / "ns", [sc.root / "lk" / "dep"], allow_unregulated_fixed_port_id=True)
    ds = pydsdl.read_namespace(sc.root / "lk" / "dep", [], allow_unregulated_fixed_port_id=True)
    return {k: model.summary(t) for k, t in zip(_names(ts), ts)}, {k: model.summary(t) for k, t in zip(_names(ds), ds)}


def make_namespace():
    def concrete(rs: int, ls: int, oi: int) -> typing.Any:
        import pydsdl

        sc = _sc()
        base_t, _base_d = _baseline(sc)
        cwd = os.getcwd()
        os.chdir(sc.root)
        try:
            with environment(ORDERS[oi]):
                ts = pydsdl.read_namespace(_root_arg(sc, ROOT_SPELLINGS[rs]), _lookup_arg(sc, LOOKUP_SPELLINGS[ls]),
                                           allow_unregulated_fixed_port_id=True)
        except pydsdl.InvalidDefinitionError as ex:
            return "root %s, lookup %s, order %s: rejected with %s: %s" % (
                ROOT_SPELLINGS[rs], LOOKUP_SPELLINGS[ls], ORDERS[oi], type(ex).__name__, ex.text[:100])
        finally:
            os.chdir(cwd)
        got = _names(ts)
        if got != TGT_KEYS:
            return "read_namespace returned %s, want %s" % (got, TGT_KEYS)
        for k, t in zip(got, ts):
            if model.summary(t) != base_t[k]:
                return "type %s depends on spelling / order (root %s, lookup %s, order %s)" % (
                    k, ROOT_SPELLINGS[rs], LOOKUP_SPELLINGS[ls], ORDERS[oi])
        return True

    def h(rs: int, ls: int, oi: int) -> typing.Any:
        a, b, c = pick(rs, 0, len(ROOT_SPELLINGS) - 1), pick(ls, 0, len(LOOKUP_SPELLINGS) - 1), pick(oi, 0, len(ORDERS) - 1)
        if a is None or b is None or c is None:
            return None
        return textio.native(concrete, a, b, c)

    return h


FILE_TARGETS = ["tgt/ns/A.1.0.dsdl", "tgt/ns/A.2.0.dsdl", "tgt/ns/sub/B.1.0.dsdl", "tgt/ns/Z.255.255.dsdl",
                "tgt/ns/sub/deep/C.0.1.uavcan", "tgt/ns/A.1.1.dsdl", "tgt/ns/aa/Lower.1.0.dsdl"]


def make_files(spelling: str):
    subsets = [list(c) for n in (1, 2, 3) for c in itertools.combinations(range(len(FILE_TARGETS)), n)]

    def concrete(si: int, oi: int, rev: int) -> typing.Any:
        import pydsdl

        sc = _sc()
        base_t, base_d = _baseline(sc)
        chosen = [FILE_TARGETS[i] for i in subsets[si]]
        if rev:
            chosen = chosen[::-1] + chosen[:1]  # reversed, first one repeated
        cwd = os.getcwd()
        os.chdir(sc.root)
        try:
            if spelling == "abs":
                files, roots, lk = [sc.root / f for f in chosen], [sc.root / "tgt" / "ns"], [sc.root / "lk" / "dep"]
            elif spelling == "rel":
                files, roots, lk = [Path(f) for f in chosen], [Path("tgt/ns")], [Path("lk/dep")]
            elif spelling == "mixed":
                files, roots, lk = [str(sc.root / f) for f in chosen], [Path("tgt/ns"), sc.root / "tgt" / "ns"], [sc.root / "links" / "dep", "lk/dep"]
            else:
                files, roots, lk = [sc.root / "link_ns" / Path(f).relative_to("tgt/ns") for f in chosen], [sc.root / "link_ns"], [sc.root / "lk" / "dep"]
            with environment(ORDERS[oi]):
                direct, transitive = pydsdl.read_files(files, roots, lk, allow_unregulated_fixed_port_id=True)
        except pydsdl.InvalidDefinitionError as ex:
            return "read_files(%s; %s; order %s) rejected: %s %s" % (chosen, spelling, ORDERS[oi], type(ex).__name__, ex.text[:100])
        finally:
            os.chdir(cwd)
        want_direct = _sorted_keys({_key_of(f) for f in chosen})
        want_trans = _sorted_keys(_closure(want_direct) - set(want_direct))
        if _names(direct) != want_direct:
            return "direct is %s, want %s" % (_names(direct), want_direct)
        if _names(transitive) != want_trans:
            return "transitive is %s, want %s (targets %s, order %s)" % (_names(transitive), want_trans, chosen, ORDERS[oi])
        for k, t in zip(_names(direct) + _names(transitive), list(direct) + list(transitive)):
            ref = base_t.get(k) or base_d.get(k)
            if model.summary(t) != ref:
                return "type %s from read_files differs from read_namespace's" % (k,)
        return True

    def h(si: int, oi: int, rev: int) -> typing.Any:
        a, b, c = pick(si, 0, len(subsets) - 1), pick(oi, 0, len(ORDERS) - 1), pick(rev, 0, 1)
        if a is None or b is None or c is None:
            return None
        return textio.native(concrete, a, b, c)

    return h


def make_prefix_roots():
    """Two root directories one of whose paths is a string prefix of the other (ns / ns_ext): any order of the roots."""

    def concrete(order: int, oi: int) -> typing.Any:
        import pydsdl

        sc = _sc()
        roots = [sc.root / "tgt" / "ns", sc.root / "tgt" / "ns_ext"]
        if order:
            roots.reverse()
        try:
            with environment(ORDERS[oi]):
                direct, transitive = pydsdl.read_files([sc.root / "tgt" / "ns_ext" / "Ext.1.0.dsdl"], roots, [],
                                                       allow_unregulated_fixed_port_id=True)
        except pydsdl.InvalidDefinitionError as ex:
            return "rejected: %s %s" % (type(ex).__name__, ex.text[:120])
        if _names(direct) != [("ns_ext.Ext", (1, 0))] or _names(transitive) != [("ns.A", (1, 1))]:
            return "direct %s, transitive %s" % (_names(direct), _names(transitive))
        return True

    def h(order: int, oi: int) -> typing.Any:
        a, b = pick(order, 0, 1), pick(oi, 0, len(ORDERS) - 1)
        if a is None or b is None:
            return None
        return textio.native(concrete, a, b)

    return h


# ------------------------------------------------------------------------------------------------------------------
# c10.roots

ROOT_TREE = {
    "a/ns/X.1.0.dsdl": "@sealed\n", "a/ns/sub/S.1.0.dsdl": "@sealed\n", "a/ns/sub/deep/T.1.0.dsdl": "@sealed\n",
    "a/ns/sub/deep/er/U.1.0.dsdl": "@sealed\n", "b/ns/Y.1.0.dsdl": "@sealed\n", "c/NS/W.1.0.dsdl": "@sealed\n",
    "d/other/V.1.0.dsdl": "@sealed\n", "a/nsx/Q.1.0.dsdl": "@sealed\n", "e/Ns/R.1.0.dsdl": "@sealed\n",
    "a/ns/ns/Z.1.0.dsdl": "@sealed\n", "a/ns/sub/Ns/P.1.0.dsdl": "@sealed\n",
}
# (root, lookups, kind): kind in ok / nested / same-name
LAYOUTS = [
    ("a/ns", ["d/other"], "ok"),
    ("a/ns", ["b/ns"], "same-name"),
    ("a/ns", ["c/NS"], "same-name"),
    ("d/other", ["b/ns", "e/Ns"], "same-name"),
    ("a/ns", ["a/ns/sub"], "nested"),
    ("a/ns", ["a/ns/sub/deep"], "nested"),
    ("a/ns", ["a/ns/sub/deep/er"], "nested"),
    ("a/ns/sub/deep", ["a/ns"], "nested"),
    ("d/other", ["a/ns/sub/deep/er", "a/ns"], "nested"),
    ("d/other", ["a/ns", "a/ns/sub/deep"], "nested"),
    # nested AND named alike: the name comparison must not pre-empt the nesting test
    ("a/ns", ["a/ns/ns"], "nested"),
    ("a/ns/ns", ["a/ns"], "nested"),
    ("a/ns", ["a/ns/sub/Ns"], "nested"),
    ("d/other", ["a/ns/sub/Ns", "a/ns"], "nested"),
    ("a/ns", ["a/nsx"], "ok"),
    ("a/ns", ["a/ns"], "ok"),
    ("a/ns", ["link_a_ns"], "ok"),
    ("a/ns", ["a/../a/ns", "d/other"], "ok"),
    ("a/ns", [], "ok"),
    ("d/other", ["a/ns", "a/nsx"], "ok"),
    ("d/other", ["b/ns", "link_a_ns"], "same-name"),
]


class _RootScratch:
    def __init__(self) -> None:
        self.root = model.scratch_dir("c10r").resolve()
        model.write_tree(self.root, ROOT_TREE)
        os.symlink(self.root / "a" / "ns", self.root / "link_a_ns")


_rscratch = {}  # type: typing.Dict[int, _RootScratch]


def make_roots(api: str):
    def concrete(li: int, allow: int, oi: int) -> typing.Any:
        import pydsdl

        pid = os.getpid()
        if pid not in _rscratch:
            _rscratch[pid] = _RootScratch()
        sc = _rscratch[pid]
        root, lookups, kind = LAYOUTS[li]
        want_reject = kind == "nested" or (kind == "same-name" and not allow)
        try:
            with environment(ORDERS[oi]):
                if api == "read_namespace":
                    pydsdl.read_namespace(sc.root / root, [sc.root / x for x in lookups], allow_unregulated_fixed_port_id=True,
                                          allow_root_namespace_name_collision=bool(allow))
                else:
                    if not allow:
                        return True  # read_files has no switch: name collisions are always allowed there
                    first = sorted((sc.root / root).rglob("*.dsdl"))[0]
                    pydsdl.read_files([first], [sc.root / root], [sc.root / x for x in lookups], allow_unregulated_fixed_port_id=True)
            got_reject = False
        except pydsdl.InvalidDefinitionError:
            got_reject = True
        if got_reject != want_reject:
            return "%s(root=%s, lookup=%s, allow collisions=%s, order %s): %s, want %s" % (
                api, root, lookups, bool(allow), ORDERS[oi], "rejected" if got_reject else "accepted",
                "rejected" if want_reject else "accepted")
        return True

    def h(li: int, allow: int, oi: int) -> typing.Any:
        a, b, c = pick(li, 0, len(LAYOUTS) - 1), pick(allow, 0, 1), pick(oi, 0, len(ORDERS) - 1)
        if a is None or b is None or c is None:
            return None
        return textio.native(concrete, a, b, c)

    return h


# ------------------------------------------------------------------------------------------------------------------


def conditions(tier: str, seed: int) -> typing.List[Cond]:
    thorough = tier == "thorough"
    out = []  # type: typing.List[Cond]
    for names in SORT_NAMES:
        for on in ("definitions", "types"):
            out.append(Cond(PROP, "c10.sort", make_sort, {"names": names, "on": on},
                            {"M0": int, "m0": int, "M1": int, "m1": int, "M2": int, "m2": int},
                            assumptions=["three objects named %s with versions M.m, every M, m in 0..255 (not 0.0), symbolic" % names],
                            witness={"M0": 1, "m0": 0, "M1": 1, "m1": 1, "M2": 2, "m2": 0}, budget=240.0, need_exhaust=True,
                            fmtstub=True))
    out.append(Cond(PROP, "c10.namespace", make_namespace, {}, {"rs": int, "ls": int, "oi": int}, kind="choice",
                    assumptions=["%d spellings of the root directory x %d of the lookup directories x %d enumeration / set "
                                 "orders on a tree of 9 definitions (3 levels, 3 versions of one name, a legacy .uavcan file, "
                                 "foreign files) with a 4-definition lookup namespace" % (len(ROOT_SPELLINGS), len(LOOKUP_SPELLINGS), len(ORDERS))],
                    stubs=["Path.rglob and the name `set` in _namespace / _namespace_reader / _dsdl permuted (models directory "
                           "enumeration order and hash seed)"],
                    witness={"rs": 0, "ls": 0, "oi": 0}, budget=1800.0, need_exhaust=True))
    for sp in (["abs", "rel", "mixed", "symlink"] if thorough else ["abs", "rel", "mixed"]):
        out.append(Cond(PROP, "c10.files", make_files, {"spelling": sp}, {"si": int, "oi": int, "rev": int}, kind="choice",
                        assumptions=["every subset of 1..3 of 7 target files x %d orders x (as listed | reversed with a "
                                     "duplicate); spelling %s" % (len(ORDERS), sp)],
                        stubs=["same environment stub"], witness={"si": 0, "oi": 0, "rev": 0}, budget=1800.0, need_exhaust=True))
    out.append(Cond(PROP, "c10.prefix-roots", make_prefix_roots, {}, {"order": int, "oi": int}, kind="choice",
                    assumptions=["read_files with two roots whose paths are string prefixes of one another, both orders"],
                    witness={"order": 0, "oi": 0}, budget=120.0, need_exhaust=True))
    for api in ("read_namespace", "read_files"):
        out.append(Cond(PROP, "c10.roots", make_roots, {"api": api}, {"li": int, "allow": int, "oi": int}, kind="choice",
                        assumptions=["%d layouts of root / lookup directories (nesting at depth 1..3, nesting of same-named directories, same name incl. letter "
                                     "case, prefix names, same directory, symlink) x allow-collision flag x orders" % len(LAYOUTS)],
                        witness={"li": 0, "allow": 1, "oi": 0}, budget=900.0, need_exhaust=True))
    return out


def extra_evidence(tier: str) -> typing.Dict[str, typing.Any]:
    return {
        "bounds": {"symbolic": "versions of the three sorted objects (0..255 each)", "tree": sorted(TREE),
                   "orders": ORDERS, "layouts": len(LAYOUTS)},
        "outside": ["the real hash seed and the real directory enumeration order are modelled by the stub (5 permutations), "
                    "not varied", "other trees; file-name parsing (C15)"],
    }
