"""
C06 - serialize/deserialize round-trip and produce the Specification's wire encoding.
Real code driven: pydsdl.serialize / pydsdl.deserialize and everything below them in _serdes.py.

A condition is (type spec, template value, set of leaves made symbolic).  Array lengths, union variants and the
remaining leaves are concrete scaffolding drawn from the seed; the symbolic leaves range over three times the width
of their type's range (so saturation and truncation are inside).  The bit writer's slow path tests one bit at a time,
so a symbolic leaf costs 2**(number of its bits written bit-wise) paths; the subset of symbolic leaves is chosen so
that the product stays below a budget.
"""

from __future__ import annotations

import copy
import random
import typing

from ..symx import Cond, pick
from .. import types as T
from ..oracle import serdes as S, layout as L

PROP = "C06"

# arrays of composites (alignment 8 through their element type) right after sub-byte fields, and similar
ALIGN_SHAPES = [
    ["struct", ["u3", ["farr", ["struct", ["u8"]], 2], "u5"]],
    ["struct", ["bool", ["varr", ["struct", ["u8", "bool"]], 2], "u8"]],
    ["struct", ["u5", ["farr", ["delim", ["struct", ["u8"]], 16], 1], "bool"]],
    ["union", ["u3", ["varr", ["struct", ["u16"]], 1]]],
    # byte-aligned integer fields whose width is not a multiple of 8 (the tail bits live in a further byte)
    ["struct", ["u8", "u12", "u4"]],
    ["struct", ["i13", "u3", "u20", "u4"]],
]



def _template(spec: typing.Any, rnd: random.Random) -> typing.Any:
    if isinstance(spec, str):
        if spec.startswith("void"):
            return None
        if spec == "bool":
            return rnd.random() < 0.5
        if spec == "utf8":
            return rnd.choice(S.UTF8_UNITS)
        if S.is_float(spec):
            return rnd.choice(S.FLOATS)
        lo, hi = S.int_range(spec)
        return rnd.choice([lo, hi, 0, 1, lo - 1, hi + 1, hi + 2, rnd.randrange(lo, hi + 1), 2 * hi + 3, lo - hi - 5])
    op = spec[0]
    if op == "farr":
        return S._collect(spec[1], [_template(spec[1], rnd) for _ in range(int(spec[2]))])  # pylint: disable=protected-access
    if op == "varr":
        n = rnd.choice([0, int(spec[2]), rnd.randrange(int(spec[2]) + 1)])
        return S._collect(spec[1], [_template(spec[1], rnd) for _ in range(n)])  # pylint: disable=protected-access
    if op == "struct":
        return {"f%d" % i: _template(f, rnd) for i, f in enumerate(spec[1])
                if not (isinstance(f, str) and f.startswith("void"))}
    if op == "union":
        k = rnd.randrange(len(spec[1]))
        return {"f%d" % k: _template(spec[1][k], rnd)}
    return _template(spec[1], rnd)


def _int_leaves(spec: typing.Any, v: typing.Any, path: typing.Tuple[typing.Any, ...] = ()) -> typing.List[typing.Any]:
    """[(path, leaf spec)] of integer leaves present in value v, in encoding order."""
    if isinstance(spec, str):
        if spec in ("bool", "utf8") or spec.startswith("void") or S.is_float(spec):
            return []
        return [(path, spec)]
    op = spec[0]
    out = []  # type: typing.List[typing.Any]
    if op in ("farr", "varr"):
        if isinstance(v, (str, bytes)):
            return []
        for i, x in enumerate(v):
            out += _int_leaves(spec[1], x, path + (i,))
        return out
    if op == "struct":
        for i, f in enumerate(spec[1]):
            if "f%d" % i in v:
                out += _int_leaves(f, v["f%d" % i], path + ("f%d" % i,))
        return out
    if op == "union":
        (key,) = list(v.keys())
        return _int_leaves(spec[1][int(key[1:])], v[key], path + (key,))
    return _int_leaves(spec[1], v, path)


class _PosWriter(S.Writer):
    """Oracle writer that also records where every put() landed (absolute position inside its own stream)."""

    def __init__(self) -> None:
        super().__init__()
        self.log = []  # type: typing.List[typing.Tuple[int, int]]

    def put(self, bits: typing.Any, w: int) -> None:
        self.log.append((self.pos, w))
        super().put(bits, w)


def _leaf_cost(spec: typing.Any, v: typing.Any, leaf_path: typing.Tuple[typing.Any, ...], leaf_spec: str) -> int:
    """Number of bits of this leaf that the real writer emits through its bit-wise slow path (from its offset)."""
    # locate the leaf's bit position modulo 8 by encoding with a marker value through the oracle
    w = L.prim_width(leaf_spec)
    pos = _leaf_position(spec, v, leaf_path)
    if pos % 8 == 0 and w >= 8:
        return w % 8
    return w


def _leaf_position(spec: typing.Any, v: typing.Any, leaf_path: typing.Tuple[typing.Any, ...]) -> int:
    """Bit position relative to the start of the innermost enclosing delimited payload (or the top)."""
    found = {}  # type: typing.Dict[str, int]

    def walk(wr: S.Writer, spec: typing.Any, v: typing.Any, path: typing.Tuple[typing.Any, ...]) -> None:
        if isinstance(spec, str):
            if path == leaf_path:
                found["pos"] = wr.pos
            wr.put(0, L.prim_width(spec))
            return
        op = spec[0]
        if op in ("farr", "varr"):
            items = list(v.encode("utf-8")) if isinstance(v, str) else list(v)
            if op == "varr":
                wr.put(0, max(L.prefix_width(int(spec[2])), L.alignment(spec[1])))
            for i, x in enumerate(items):
                walk(wr, spec[1], x, path + (i,))
        elif op == "struct":
            for i, f in enumerate(spec[1]):
                wr.align(L.alignment(f))
                if isinstance(f, str) and f.startswith("void"):
                    wr.put(0, L.prim_width(f))
                else:
                    walk(wr, f, v["f%d" % i], path + ("f%d" % i,))
            wr.align(L.alignment(spec))
        elif op == "union":
            (key,) = list(v.keys())
            wr.put(0, max([L.tag_width(len(spec[1]))] + [L.alignment(f) for f in spec[1]]))
            walk(wr, spec[1][int(key[1:])], v[key], path + (key,))
            wr.align(L.alignment(spec))
        else:
            inner = S.Writer()
            walk(inner, spec[1], v, path)
            wr.put(0, 32 + 8 * (-((-inner.pos) // 8)))

    top = S.Writer()
    walk(top, spec if spec[0] != "delim" else spec[1], v, ())
    return found.get("pos", 1)


def _subst(v: typing.Any, path: typing.Tuple[typing.Any, ...], x: typing.Any) -> typing.Any:
    if not path:
        return x
    if isinstance(v, dict):
        out = dict(v)
        out[path[0]] = _subst(v[path[0]], path[1:], x)
        return out
    out = list(v)
    out[path[0]] = _subst(v[path[0]], path[1:], x)
    return out


def make_encode(spec: typing.Any, template: typing.Any, sym: typing.List[typing.Any]):
    """sym = [[path, leaf spec], ...]: leaves replaced by the symbolic arguments s0, s1, ..."""
    import pydsdl

    sym = [(tuple(p), ls) for p, ls in sym]
    inner_spec = spec[1] if spec[0] == "delim" else spec
    lengths = L.enumerate_set(inner_spec)

    def h(*args: int) -> typing.Any:
        v = template
        for (path, ls), a in zip(sym, args):
            lo, hi = S.int_range(ls)
            span = hi - lo + 1
            if not lo - span <= a <= hi + span:
                return None
            v = _subst(v, path, a)
        t = T.build(spec)
        got = pydsdl.serialize(t, v)
        n, bits = S.encode(spec, v)
        want = S.to_bytes(n, bits)
        if got != want:
            return "encoding differs: got %r want %r for %r" % (got, want, v)
        if len(got) * 8 not in lengths:
            return "length %d bits is not in the bit length set" % (len(got) * 8)
        rt = S.roundtrip_value(spec, v)
        back = pydsdl.deserialize(t, got)
        if back != rt:
            return "round trip: got %r want %r" % (back, rt)
        if spec[0] == "delim":
            hdr = pydsdl.serialize(t, v, with_delimiter_header=True)
            if hdr != len(got).to_bytes(4, "little") + got:
                return "delimiter header form"
            if pydsdl.deserialize(t, hdr, with_delimiter_header=True) != rt:
                return "round trip with delimiter header"
        return True

    return _arity(h, len(sym))


def _arity(h: typing.Callable[..., typing.Any], n: int) -> typing.Callable[..., typing.Any]:
    names = ["s%d" % i for i in range(max(n, 1))]
    src = "def w(%s):\n    return h(%s)\n" % (", ".join(names), ", ".join(names[:n]))
    ns = {"h": h}  # type: typing.Dict[str, typing.Any]
    exec(src, ns)  # pylint: disable=exec-used
    return ns["w"]  # type: ignore


def _strip_defaults(spec: typing.Any, v: typing.Any, drop: typing.Any) -> typing.Any:
    """Removes structure fields (those whose dotted path is in `drop`) from a value."""
    return v


def make_defaults(spec: typing.Any):
    """Omitted structure fields encode like explicit zero / empty / first variant; relaxed forms like the dict form."""
    import pydsdl

    def zero(s: typing.Any) -> typing.Any:
        if isinstance(s, str):
            return False if s == "bool" else (0.0 if S.is_float(s) else 0)
        if s[0] == "farr":
            return [zero(s[1]) for _ in range(int(s[2]))]
        if s[0] == "varr":
            return "" if s[1] == "utf8" else (b"" if s[1] == "byte" else [])
        if s[0] == "struct":
            return {"f%d" % i: zero(f) for i, f in enumerate(s[1]) if not (isinstance(f, str) and f.startswith("void"))}
        if s[0] == "union":
            return {"f0": zero(s[1][0])}
        return zero(s[1])

    inner = spec[1] if spec[0] == "delim" else spec

    def h(mask: int, x: int) -> typing.Any:
        nf = len(inner[1])
        m = pick(mask, 0, 2**nf - 1)
        x = pick(x, -9, 9)
        if m is None or x is None:
            return None
        from .. import textio

        return textio.native(body, m, x)

    def body(m: int, x: int) -> typing.Any:
        nf = len(inner[1])
        t = T.build(spec)
        full = zero(spec)
        # put the symbolic value into the first integer leaf that is kept
        partial = {}
        placed = False
        for i, f in enumerate(inner[1]):
            key = "f%d" % i
            if key not in full:
                continue
            if (m >> i) & 1:
                continue  # omitted
            val = full[key]
            if not placed and isinstance(f, str) and f not in ("bool",) and not S.is_float(f):
                val = x
                full = dict(full)
                full[key] = x
                placed = True
            partial[key] = val
        a = pydsdl.serialize(t, partial)
        b = pydsdl.serialize(t, full)
        if a != b:
            return "omitted fields are not encoded as defaults: %r vs %r" % (a, b)
        n, bits = S.encode(spec, full)
        if b != S.to_bytes(n, bits):
            return "encoding of defaults"
        # relaxed: positional form of the full value
        fields = [full[k] for k in sorted(full, key=lambda s: int(s[1:]))]
        if len(fields) >= 2:
            if pydsdl.serialize(t, fields, relaxed=True) != b:
                return "positional form"
            if pydsdl.serialize(t, tuple(fields[:-1]), relaxed=True) != pydsdl.serialize(
                    t, {k: full[k] for k in sorted(full, key=lambda s: int(s[1:]))[:-1]}):
                return "short positional form"
        elif len(fields) == 1:
            if pydsdl.serialize(t, fields[0], relaxed=True) != b:
                return "bare value for a single-field structure"
        return True

    return h


def make_bytes_payload(kind: str, cap: int, n: int, unaligned: bool = False):
    """byte[<=cap] / utf8[<=cap] payloads given as symbolic bytes / str of length n."""
    import pydsdl

    spec = ["struct", ["u3" if unaligned else "u8", ["varr", kind, cap], "u8"]]

    def check(payload: typing.Any, raw: typing.Any) -> typing.Any:
        t = T.build(spec)
        v = {"f0": 5, "f1": payload, "f2": 0xA5}
        try:
            got = pydsdl.serialize(t, v)
        except pydsdl.SerDesError:
            got = None
        if (got is None) != (len(raw) > cap):
            return "length check"
        if got is None:
            return True
        n_, bits_ = S.encode(spec, v)
        want = S.to_bytes(n_, bits_)
        if got != want:
            return "payload encoding %r want %r" % (got, want)
        back = pydsdl.deserialize(t, got)
        if back != {"f0": 5, "f1": payload if kind == "utf8" or isinstance(payload, bytes) else raw, "f2": 0xA5}:
            return "payload round trip %r" % (back,)
        return True

    if kind == "byte":

        def hb(b: bytes) -> typing.Any:
            if len(b) != n:
                return None
            return check(b, b)

        return hb

    def hs(s: str) -> typing.Any:
        if len(s) != n:
            return None
        for ch in s:
            if 0xD800 <= ord(ch) <= 0xDFFF:
                return None  # lone surrogates are not encodable: not a valid value
        return check(s, s.encode("utf-8"))

    return hs


def make_floats(spec: typing.Any):
    """Float fields on the fixed list of values (C boundary: outside the symbolic claim; choice-exhaustive)."""
    import pydsdl

    nslots = S.slots(spec)

    def h(*args: int) -> typing.Any:
        try:
            v = S.make_value(spec, iter(args), pick)
        except S.OutOfDomain:
            return None
        t = T.build(spec)
        got = pydsdl.serialize(t, v)
        n, bits = S.encode(spec, v)
        if got != S.to_bytes(n, bits):
            return "float encoding for %r: %r" % (v, got)
        back = pydsdl.deserialize(t, got)
        if repr(back) != repr(S.roundtrip_value(spec, v)):
            return "float round trip %r -> %r" % (v, back)
        return True

    return _arity(h, nslots)


# twins: composites that compare EQUAL (same name, version, bit length set) but differ in structure
TWINS = [
    (["struct", [["union", ["u8", "u16"]], "u8"]], ["struct", [["union", ["u16", "u8"]], "u8"]]),
    (["struct", [["union", ["u8", "bool", "u16"]]]], ["struct", [["union", ["u16", "u8"]]]]),
    (["struct", ["u8", "u8"]], ["struct", ["u16"]]),
    (["union", ["u8", "u16"]], ["union", ["u16", "u8"]]),
    (["struct", [["delim", ["struct", ["u8", "u16"]], 64], "u8"]], ["struct", [["delim", ["struct", ["u16", "u8", "u8"]], 64], "u8"]]),
]


def make_twins(pair: int, first: int):
    """
    Both twins serialised in ONE process (`first` first), with omitted fields (defaults) and explicit values: each must
    encode by its own definition.
    """
    import pydsdl

    specs = TWINS[pair]

    def zero(s: typing.Any) -> typing.Any:
        if isinstance(s, str):
            return False if s == "bool" else 0
        if s[0] == "struct":
            return {"f%d" % i: zero(f) for i, f in enumerate(s[1])}
        if s[0] == "union":
            return {"f0": zero(s[1][0])}
        return zero(s[1])

    def concrete(k: int) -> typing.Any:
        types = {}
        for i in (0, 1):
            T._counter[0] = 6000  # pylint: disable=protected-access  (identical generated names for both twins)
            types[i] = T.build(specs[i])
        if not (types[0] == types[1]):
            return "harness: twins do not compare equal"
        for i in (first, 1 - first):
            full = zero(specs[i])
            variants = [({}, full)]
            if isinstance(full, dict) and len(full) > 1:
                key = sorted(full)[-1]
                v = dict(full)
                v[key] = 7 if not isinstance(full[key], dict) else full[key]
                variants.append(({key: v[key]}, v))
            given, explicit = variants[k % len(variants)]
            if specs[i][0] == "union" or (specs[i][0] == "delim" and specs[i][1][0] == "union"):
                given = explicit
            got = pydsdl.serialize(types[i], given)
            n, nbits = S.encode(specs[i], explicit)
            want = S.to_bytes(n, nbits)
            if bytes(got) != bytes(want):
                return "twin %d (%s): serialize(%r) = %s, its own definition says %s" % (
                    i, T.spec_str(specs[i]), given, bytes(got).hex(), bytes(want).hex())
            back = pydsdl.deserialize(types[i], got)
            if back != S.roundtrip_value(specs[i], explicit):
                return "twin %d: round trip gives %r" % (i, back)
        return True

    def h(k: int) -> typing.Any:
        a = pick(k, 0, 1)
        if a is None:
            return None
        from .. import textio

        return textio.native(concrete, a)

    return h


def conditions(tier: str, seed: int) -> typing.List[Cond]:
    out = _conditions(tier, seed)
    for pi in range(len(TWINS)):
        for first in (0, 1):
            out.append(Cond(PROP, "c06.twins", make_twins, {"pair": pi, "first": first}, {"k": int}, kind="choice",
                            assumptions=["two equal-comparing but structurally different composites serialised in one process "
                                         "(defaults and explicit values)"], witness={"k": 0}, budget=120.0, need_exhaust=True))
    return out


def _conditions(tier: str, seed: int) -> typing.List[Cond]:
    thorough = tier == "thorough"
    rnd = random.Random(seed)
    out = []  # type: typing.List[Cond]
    limit = 2**10 if thorough else 2**6
    maxsym = 3 if thorough else 2
    for spec in T.catalogue(tier, seed) + ALIGN_SHAPES:
        if not S.slots(spec):
            continue
        for _ in range(8 if thorough else 3):
            tv = _template(spec, rnd)
            leaves = _int_leaves(spec, tv)
            rnd.shuffle(leaves)
            chosen, cost = [], 1
            nested_delim = "delim" in repr(spec[1:])
            for path, ls in leaves:
                if nested_delim and chosen and not thorough:
                    break  # payload bytes of nested delimited objects are re-written byte by byte: one symbolic leaf
                c = 2 ** _leaf_cost(spec, tv, path, ls)
                if ls.startswith("u") or ls.startswith("i") or ls in ("byte",):
                    c *= 3  # saturation forks
                if L.prim_width(ls) > (64 if thorough else 16):
                    continue  # 64-bit symbolic payloads make the int<->bytes conversions solver-bound
                if cost * c <= limit and len(chosen) < maxsym:
                    chosen.append([list(path), ls])
                    cost *= c
            sig = {"s%d" % i: int for i in range(max(1, len(chosen)))}
            wit = {}
            for i in range(max(1, len(chosen))):
                wit["s%d" % i] = 1
            out.append(Cond(PROP, "c06.encode", make_encode, {"spec": spec, "template": tv, "sym": chosen}, sig,
                            assumptions=["symbolic leaves within [lo - span, hi + span] of their type",
                                         "array lengths, union variants and the other leaves are concrete (seeded)"],
                            witness=wit, budget=600.0 if thorough else 150.0))
    dspecs = [s for s in T.catalogue(tier, seed) if (s[1] if s[0] == "delim" else s)[0] == "struct"
              and len((s[1] if s[0] == "delim" else s)[1]) >= 1]
    for spec in dspecs[: (len(dspecs) if thorough else 6)]:
        if len((spec[1] if spec[0] == "delim" else spec)[1]) > 4:
            continue
        out.append(Cond(PROP, "c06.defaults", make_defaults, {"spec": spec}, {"mask": int, "x": int}, kind="choice",
                        assumptions=["every subset of omitted fields (choice); one integer leaf in -9..9 (choice)"],
                        witness={"mask": 1, "x": 3}, budget=300.0))
    for kind in ("byte", "utf8"):
        for n, unaligned in [(0, False), (1, False), (2, False), (3, False), (4, False), (1, True)] + ([(2, True)] if thorough else []):
            if unaligned and kind == "utf8" and not thorough:
                continue
            cap = 3
            sig = {"b": bytes} if kind == "byte" else {"s": str}
            wit = {"b": b"\x07" * n} if kind == "byte" else {"s": "q" * n}
            out.append(Cond(PROP, "c06.payload", make_bytes_payload,
                            {"kind": kind, "cap": cap, "n": n, "unaligned": unaligned}, sig,
                            assumptions=["payload of exactly %d symbolic %s" % (n, "bytes" if kind == "byte" else "characters")],
                            witness=wit, budget=300.0))
    for spec in [["struct", ["f16", "bool", "f32"]], ["struct", ["u3", "f64"]], ["struct", ["tf32", "tf16"]],
                 ["union", ["f32", ["farr", "f16", 1]]]]:
        n = S.slots(spec)
        out.append(Cond(PROP, "c06.floats", make_floats, {"spec": spec}, {"s%d" % i: int for i in range(n)},
                        kind="choice", assumptions=["float values from a fixed list of %d (index is a choice variable)" % len(S.FLOATS)],
                        witness={"s%d" % i: 1 for i in range(n)}, budget=400.0))
    return out


def extra_evidence(tier: str) -> typing.Dict[str, typing.Any]:
    return {
        "bounds": {"types": "catalogue shapes (vp/types.py)", "symbolic leaves per condition": "<= 4, fork budget 2**8 / 2**12",
                   "leaf domain": "three times the width of the type's range", "payloads": "byte/utf8 of 0..3(4) symbolic units"},
        "outside": ["floating point encode/decode is exercised on a fixed list only (struct.pack is a C boundary)",
                    "NaN payloads", "shapes outside the catalogue"],
    }


_ = copy


def lemmas(tier: str, seed: int) -> typing.List[typing.Dict[str, typing.Any]]:
    """E3: SMT obligations over the AST -> SMT encoding of the bit kernels (vp/pz.py, vp/pz_obl.py)."""
    from .. import pz_obl

    return pz_obl.run(tier, seed, want=("W", "A"))
