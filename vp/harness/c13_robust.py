"""
C13 - bad input yields InvalidDefinitionError with a path, never a crash / InternalError.
Real code driven: the grammar matcher (parsimonious, executed under the tracer on SYMBOLIC text), _ParseTreeProcessor,
expression operators, DataTypeBuilder, DSDLDefinition.read and _namespace_reader.read_definitions (the two catch-all
funnels) on in-memory definitions; DSDLDefinition.__init__ on symbolic file-name components behind a path stub.
"""

from __future__ import annotations

import fractions
import typing

from ..symx import Cond, pick
from .. import textio

PROP = "C13"
Fr = fractions.Fraction

LEAF = ("ns.Leaf", (1, 0), "uint8 v\n@sealed\n")
SVC = ("ns.Svc", (1, 0), "uint8 a\nuint8 K = 1\n@sealed\n---\nuint8 b\n@extent 64\n")


def _read(text: typing.Any, env: typing.Optional[typing.Mapping[str, typing.Any]] = None,
          dep_text: typing.Optional[typing.Any] = None) -> typing.Any:
    """True if reading ends with a model or an InvalidDefinitionError carrying the right path; else a description."""
    import pydsdl
    from pydsdl import _namespace_reader as NR

    t = textio.MemDefinition("ns.T", (1, 0), text)
    defs = [t, textio.MemDefinition(*LEAF), textio.MemDefinition(*SVC)]
    culprit = t
    if dep_text is not None:
        d = textio.MemDefinition("ns.Dep", (1, 0), dep_text)
        defs.append(d)
        culprit = d
    try:
        with textio.symbolic_env(env or {}), textio.native_grammar():
            NR.read_definitions([t], defs, None, True)
    except pydsdl.InvalidDefinitionError as ex:
        if ex.path is None:
            return "%s without a path" % type(ex).__name__
        if ex.path != culprit.file_path and (dep_text is not None or ex.path != t.file_path):
            return "%s attributed to %s, the offending file is %s" % (type(ex).__name__, ex.path, culprit.file_path)
        return True
    except pydsdl.InternalError as ex:
        return "InternalError escaped: %s" % ex.text.split("\n")[0][:160]
    except RecursionError:
        return "RecursionError escaped"
    return True


# ------------------------------------------------------------------------------------------------------------------
# c13.arith - symbolic operands through every binary operator

BINOPS = ["+", "-", "*", "/", "%", "**", "|", "^", "&", "==", "!=", "<=", ">=", "<", ">", "||", "&&"]


def make_arith(op: str, da: int, db: int, lo: int, hi: int, unbounded: bool):
    text = "@capture a %s b\n@sealed\n" % op

    def h(na: int, nb: int) -> typing.Any:
        from pydsdl import _expression as E

        if unbounded:
            a, b = na, nb
        else:
            a, b = pick(na, lo, hi), pick(nb, lo, hi)
            if a is None or b is None:
                return None
        return _read(text, {"a": E.Rational(Fr(a, da)), "b": E.Rational(Fr(b, db))})

    return h


# operands for the all-concrete operator x operand-kind sweep (run natively)
OPERANDS = [
    "0", "1", "-1", "2", "-8", "3", "1/2", "-1/2", "1/3", "2/3", "0.5", "1.5", "-0.0", "1e400", "-1e400", "1e-400",
    "(10 ** 400)", "(2 ** 2000)", "(-(10 ** 400))", "400", "-400", "1e3", "true", "false", "'s'", '"\\u00e9"', "''",
    "{1}", "{1, 2/3}", "{true}", "{'a'}", "{1}.count", "{1, 2}.max", "_offset_", "_offset_.min", "nothing", "ns.Leaf.1.0",
    "v", "max", "_extent_", "_bit_length_", '"\\U00110000"', '"\\U0010ffff"', '"\\Uffffffff"', "'\\ud800'", "ns.Leaf.1.0.v",
    "ns.Leaf.1.0._extent_", "{{1, 2}, {1}}", "{{1}}", "{uint8}", "{ns.Leaf.1.0, uint8}", "{'a', 'b'}", "ns.Svc.1.0", "ns.Svc.1.0._extent_", "ns.Svc.1.0._bit_length_", "ns.Svc.1.0.K",
]
UNOPS = ["+", "-", "!"]


def make_kinds(op: str, subset: typing.List[int]):
    n = len(subset)

    big = {"1e400", "-1e400", "(10 ** 400)", "(2 ** 2000)", "(-(10 ** 400))"}

    def concrete(i: int, j: int) -> typing.Any:
        i, j = subset[i], subset[j]
        if op == "**" and OPERANDS[j] in big:
            return True  # an exponent of that size exhausts memory: resource exhaustion is outside the claim
        e = "(%s %s %s)" % (OPERANDS[i], op, OPERANDS[j])
        return _read("@assert %s == %s\n@sealed\n" % (e, e))

    def h(i: int, j: int) -> typing.Any:
        a, b = pick(i, 0, n - 1), pick(j, 0, n - 1)
        if a is None or b is None:
            return None
        return textio.native(concrete, a, b)

    return h


def make_unary(sink: str):
    n = len(OPERANDS)
    templates = {
        "print": "@print %s%s\n@sealed\n", "assert": "@assert %s%s\n@sealed\n", "const": "uint8 X = %s%s\n@sealed\n",
        "fconst": "float16 X = %s%s\n@sealed\n", "bconst": "bool X = %s%s\n@sealed\n", "cap": "uint8[%s%s] x\n@sealed\n",
        "capi": "bool[<=%s%s] x\n@sealed\n", "extent": "uint8 x\n@extent %s%s\n", "attr": "@print (%s%s).max\n@sealed\n", "attr-min": "@print (%s%s).min\n@sealed\n",
        "attr-count": "@print (%s%s).count\n@sealed\n",
        "set": "@print {%s%s, 1}\n@sealed\n", "version": "ns.Leaf.%s%s.0 x\n@sealed\n",
        "ftype": "%s%s fx\n@sealed\n", "atype": "%s%s[2] fx\n@sealed\n", "vtype": "%s%s[<=2] fx\n@extent 8 * 1000\n",
        "utype": "@union\nuint8 a\n%s%s fx\n@sealed\n", "ctype": "%s%s CONST = 1\n@sealed\n",
        "ftype-offset": "uint8 a\n%s%s fx\n@assert _offset_ %% 8 == {0}\n@sealed\n",
    }

    def concrete(u: int, i: int) -> typing.Any:
        return _read(templates[sink] % (["", "+", "-", "!"][u], OPERANDS[i]))

    def h(u: int, i: int) -> typing.Any:
        a, b = pick(u, 0, 3), pick(i, 0, n - 1)
        if a is None or b is None:
            return None
        return textio.native(concrete, a, b)

    return h


# ------------------------------------------------------------------------------------------------------------------
# c13.escape / c13.char - one SYMBOLIC character inside a template (the text is parsed under the tracer)

ESCAPE_TEMPLATES = [
    '@capture "\\u00e9"', '@capture "\\U0010ffff"', "@capture '\\n'", "uint8 X = 'a'", "@capture 'ab' + \"c\"",
]
CHAR_TEMPLATES = [
    "uint8 a", "@print 1 + 2", "uint8[<=3] a", "ns.Leaf.1.0 x", "uint8 K = 2 ** 3", "@assert {1, 2}.max == 2",
    "truncated int16 v # c", "void3", "---",
]


def make_char(template: str, pos: int, mode: str, tail: str):
    """mode: "replace" the character at pos / "insert" before pos."""
    before = template[:pos]
    after = template[pos + 1:] if mode == "replace" else template[pos:]

    def h(c: str) -> typing.Any:
        if len(c) != 1:
            return None
        return _read(before + c + after + tail)

    return h


def make_tiny(n: int, first_class: str):
    """The whole definition is a symbolic str of length n (n <= 3); sharded by the class of the first character."""
    classes = {
        "any": lambda ch: True,
        "alpha": lambda ch: ("a" <= ch <= "z") or ("A" <= ch <= "Z") or ch == "_",
        "digit": lambda ch: "0" <= ch <= "9",
        "space": lambda ch: ch in " \t\r\n",
        "punct": lambda ch: ch in "@#-",
        "other": lambda ch: not (("a" <= ch <= "z") or ("A" <= ch <= "Z") or ch == "_" or ("0" <= ch <= "9")
                                 or ch in " \t\r\n@#-"),
    }
    ok = classes[first_class]

    def h(s: str) -> typing.Any:
        if len(s) != n:
            return None
        if n > 0 and not ok(s[0]):
            return None
        return _read(s)

    return h


# ------------------------------------------------------------------------------------------------------------------
# c13.tokens - token-level mutations of valid definitions (choice-exhaustive, native)

TOKEN_TEMPLATES = [
    ["uint8", " ", "a", "\n", "@sealed", "\n"],
    ["@union", "\n", "uint8", " ", "a", "\n", "ns.Leaf.1.0", "[", "<=", "3", "]", " ", "b", "\n", "@extent", " ", "64", " ", "*", " ", "8", "\n"],
    ["uint8", " ", "K", " ", "=", " ", "(", "1", " ", "+", " ", "2", ")", " ", "*", " ", "3", "\n", "@assert", " ", "K",
     " ", "==", " ", "9", "\n", "@sealed", "\n"],  # no `**` here: a mutated exponent (1e400, 30 digits) would exhaust memory
    ["# doc", "\n", "@deprecated", "\n", "void3", "\n", "bool", "[", "5", "]", " ", "f", " ", "# c", "\n", "@sealed", "\n",
     "---", "\n", "float32", " ", "r", "\n", "@print", " ", "_offset_", "\n", "@sealed"],
    ["@assert", " ", "{", "1", ",", " ", "2", "}", ".", "max", " ", "==", " ", "2", " ", "&&", " ", "!", "false", "\n",
     "utf8", "[", "<=", "4", "]", " ", "s", "\n", "@sealed", "\n"],
]
POOL = ["", " ", "\n", "\r\n", "\t", "@", "@sealed", "@extent", "@union", "---", "uint8", "void1", "int1", "float17", "[", "]",
        "<=", "<", "(", ")", "{", "}", ",", ".", "1.0", "0", "-1", "**", "/", "%", "=", "==", "'", '"', "\\", "#", "a", "K",
        "_offset_", "ns.Leaf.1.0", "ns.T.1.0", "ns.Svc.1.0", "truncated", "saturated", "true", "\x00", "\ud800", "\U0010ffff", "é",
        "1e400", "0x", "0b2", "1_", "9" * 30]


def make_tokens(template: int, op: str):
    toks = TOKEN_TEMPLATES[template]
    n = len(toks)

    def concrete(p: int, r: int) -> typing.Any:
        t = list(toks)
        if op == "delete":
            del t[p]
        elif op == "duplicate":
            t.insert(p, t[p])
        elif op == "swap":
            if p + 1 >= n:
                return True
            t[p], t[p + 1] = t[p + 1], t[p]
        elif op == "replace":
            t[p] = POOL[r]
        elif op == "insert":
            t.insert(p, POOL[r])
        return _read("".join(t))

    def h(p: int, r: int) -> typing.Any:
        a = pick(p, 0, n - 1)
        if a is None:
            return None
        if op in ("replace", "insert"):
            b = pick(r, 0, len(POOL) - 1)
            if b is None:
                return None
        else:
            if r != 0:
                return None
            b = 0
        return textio.native(concrete, a, b)

    return h


def make_dep(variant: int):
    """Garbage in a DEPENDENCY: the error must still be an InvalidDefinitionError with a path."""
    bodies = ["@sealed\n@sealed", "uint8 a\n", "uint8 &\n@sealed", "@print 1/0\n@sealed", "ns.T.1.0 back\n@sealed",
              "ns.Dep.1.0 self\n@sealed", "@assert false\n@sealed", "\x00", "", "@union\nuint8 a\n@sealed", "uint8 a\nuint8 a\n@sealed",
              "byte b\n@sealed", "uint8 a\n@extent 4", "void8 a\n@sealed", "@deprecated\n@deprecated\n@sealed"]

    def concrete(i: int) -> typing.Any:
        return _read("ns.Dep.1.0 d\n@sealed\n", None, bodies[i])

    def h(i: int) -> typing.Any:
        a = pick(i, 0, len(bodies) - 1)
        if a is None:
            return None
        return textio.native(concrete, a)

    _ = variant
    return h


def make_dup_files():
    """Real directory: two files that map to the same name and version (choice over the spellings)."""
    from .. import model

    pairs = [("Foo.1.0.dsdl", "100.Foo.1.0.dsdl"), ("Foo.1.0.dsdl", "Foo.1.0.uavcan"), ("7.Foo.1.0.dsdl", "8.Foo.1.0.dsdl"),
             ("Foo.1.0.dsdl", "sub/../Foo.1.0.dsdl")]

    def concrete(i: int, same_text: int) -> typing.Any:
        import pydsdl

        a, b = pairs[i]
        if ".." in b:
            return True
        root = model.scratch_dir("c13d").resolve()
        model.write_tree(root, {"ns/" + a: "uint8 x\n@sealed\n", "ns/" + b: "uint8 x\n@sealed\n" if same_text else "uint16 y\n@sealed\n",
                                "ns/User.1.0.dsdl": "@sealed\n"})
        try:
            pydsdl.read_namespace(root / "ns", [], allow_unregulated_fixed_port_id=True)
        except pydsdl.InvalidDefinitionError as ex:
            return True if ex.path is not None else "error without a path"
        return True  # accepting is not what C13 is about

    def h(i: int, same_text: int) -> typing.Any:
        a, b = pick(i, 0, len(pairs) - 1), pick(same_text, 0, 1)
        if a is None or b is None:
            return None
        return textio.native(concrete, a, b)

    return h


# ------------------------------------------------------------------------------------------------------------------
# c13.huge - numbers beyond the interpreter's int->str digit limit (known finding on CPython >= 3.11)

HUGE = ["@print 10 ** 5000", "uint8 X = 10 ** 5000", "@extent 10 ** 5000", "@print 1e5000", "@print " + "9" * 5000,
        "@print {10 ** 5000}", "float64 X = 10 ** 5000"]


def make_huge():
    def h(i: int) -> typing.Any:
        a = pick(i, 0, len(HUGE) - 1)
        if a is None:
            return None
        return textio.native(_read, HUGE[a] + "\n@sealed\n")

    return h


# ------------------------------------------------------------------------------------------------------------------
# c13.filename - DSDLDefinition.__init__ on symbolic file-name components (file system replaced by a path stub)


class _FakePath:
    """Pure-Python stand-in for pathlib.Path that keeps (possibly symbolic) component strings; no OS calls."""

    def __init__(self, *parts: typing.Any) -> None:
        ps = []  # type: typing.List[typing.Any]
        for p in parts:
            if isinstance(p, _FakePath):
                ps.extend(p._parts)  # pylint: disable=protected-access
            else:
                ps.append(p)
        self._parts = ps

    def resolve(self, strict: bool = False) -> "_FakePath":
        return self

    def exists(self) -> bool:
        return True

    @property
    def name(self) -> typing.Any:
        return self._parts[-1]

    @property
    def parent(self) -> "_FakePath":
        return _FakePath(*self._parts[:-1])

    @property
    def parts(self) -> typing.Tuple[typing.Any, ...]:
        return tuple(self._parts)

    def relative_to(self, other: "_FakePath") -> "_FakePath":
        n = len(other._parts)  # pylint: disable=protected-access
        if self._parts[:n] != other._parts:  # pylint: disable=protected-access
            raise ValueError("not relative")
        return _FakePath(*self._parts[n:])

    def __truediv__(self, other: typing.Any) -> "_FakePath":
        return _FakePath(self, other)

    def __rtruediv__(self, other: typing.Any) -> "_FakePath":
        return _FakePath(other, self)

    def __eq__(self, other: object) -> bool:
        return isinstance(other, _FakePath) and self._parts == other._parts

    def __hash__(self) -> int:
        return hash(len(self._parts))

    def __str__(self) -> str:
        return "/".join(str(p) for p in self._parts)

    __repr__ = __str__


def make_filename(which: str, n: int):
    """
    The file name is  <port>.<short>.<major>.<minor>.dsdl ; the component named by `which` is a symbolic str of length
    n, the others are fixed.  Only InvalidDefinitionError (FileNameFormatError) may escape from the constructor.
    """

    def h(s: str) -> typing.Any:
        import pydsdl
        from pydsdl import _dsdl_definition as DD

        if len(s) != n:
            return None
        if "/" in s or "\x00" in s:
            return None  # not a possible file-name component
        comp = {"port": "100", "short": "Foo", "major": "1", "minor": "0"}
        comp[which] = s
        base = comp["port"] + "." + comp["short"] + "." + comp["major"] + "." + comp["minor"] + ".dsdl"
        if which == "noport":
            base = comp["short"] + "." + s + "." + comp["minor"] + ".dsdl"
        saved = DD.Path
        DD.Path = _FakePath  # type: ignore
        try:
            try:
                d = DD.DSDLDefinition(_FakePath("root", "ns", "sub", base), _FakePath("root", "ns"))  # type: ignore
            except pydsdl.InvalidDefinitionError:
                return True
            # accepted: the identity must be usable (these are the accessors the reader calls first)
            _ = (d.full_name, d.version, d.fixed_port_id, d.root_namespace, d.short_name)
            return True
        finally:
            DD.Path = saved  # type: ignore

    return h


# ------------------------------------------------------------------------------------------------------------------


def key_c13(scaffold: typing.Dict[str, typing.Any], args: typing.Dict[str, typing.Any], detail: str) -> str:
    if "Exceeds the limit" in detail and "integer string conversion" in detail:
        return "C13:int-str-digit-limit"
    return "C13:%s" % detail[:60]


def conditions(tier: str, seed: int) -> typing.List[Cond]:
    import random

    rnd = random.Random(seed)
    thorough = tier == "thorough"
    out = []  # type: typing.List[Cond]
    # c13.arith
    for op in BINOPS:
        linear = op in ("+", "-", "*", "==", "!=", "<=", ">=", "<", ">")
        dens = [(1, 1), (2, 3)] if not thorough else [(1, 1), (2, 3), (3, 1), (1, 2)]
        for da, db in dens:
            if linear:
                out.append(Cond(PROP, "c13.arith", make_arith,
                                {"op": op, "da": da, "db": db, "lo": 0, "hi": 0, "unbounded": True},
                                {"na": int, "nb": int},
                                assumptions=["a = na/%d, b = nb/%d with na, nb unbounded integers" % (da, db)],
                                fmtstub=True, witness={"na": 7, "nb": 0}, budget=120.0, need_exhaust=True, key="key_c13"))
            else:
                lo, hi = (-9, 9) if thorough else (-3, 3)
                out.append(Cond(PROP, "c13.arith-small", make_arith,
                                {"op": op, "da": da, "db": db, "lo": lo, "hi": hi, "unbounded": False},
                                {"na": int, "nb": int}, kind="choice",
                                assumptions=["a = na/%d, b = nb/%d with na, nb in [%d, %d] (float power / bitwise "
                                             "operators realise their operands)" % (da, db, lo, hi)],
                                witness={"na": -3, "nb": 1}, budget=300.0, need_exhaust=True, key="key_c13"))
    # c13.kinds
    for op in BINOPS + ["."]:
        subset = list(range(len(OPERANDS))) if thorough or op in ("**", "/", "%", ".") else sorted(rnd.sample(range(len(OPERANDS)), 14))
        out.append(Cond(PROP, "c13.kinds", make_kinds, {"op": op, "subset": subset}, {"i": int, "j": int}, kind="choice",
                        assumptions=["operands from a list of %d spellings (integers, fractions, reals incl. 1e400 and "
                                     "1e-400, 10**400, 2**2000, booleans, strings, sets, attributes, identifiers, a type)"
                                     % len(OPERANDS)],
                        witness={"i": 4, "j": 8}, budget=1800.0, need_exhaust=True, key="key_c13"))
    for sink in ["print", "assert", "const", "fconst", "bconst", "cap", "capi", "extent", "attr", "attr-min", "attr-count", "set", "version", "ftype",
                 "atype", "vtype", "utype", "ctype", "ftype-offset"]:
        out.append(Cond(PROP, "c13.sinks", make_unary, {"sink": sink}, {"u": int, "i": int}, kind="choice",
                        assumptions=["unary form in {none, +, -, !} x operand spelling x value sink"],
                        witness={"u": 2, "i": 13}, budget=600.0, need_exhaust=True, key="key_c13"))
    # c13.escape, c13.char
    def positions(tmpl: str, k: int) -> typing.List[int]:
        allp = list(range(len(tmpl)))
        return allp if thorough else sorted(rnd.sample(allp, min(k, len(allp))))

    for tmpl in ESCAPE_TEMPLATES:
        q = tmpl.index('"') if '"' in tmpl else tmpl.index("'")
        inner = [p for p in range(q + 1, len(tmpl))]
        ps = inner if thorough else sorted(rnd.sample(inner, 1))
        for p in ps:
            out.append(Cond(PROP, "c13.escape", make_char, {"template": tmpl, "pos": p, "mode": "replace", "tail": "\n@sealed\n"},
                            {"c": str}, assumptions=["c: any single Unicode character (incl. surrogates)"],
                            witness={"c": "z"}, budget=900.0 if thorough else 60.0, path_timeout=60.0, key="key_c13"))
    for tmpl in CHAR_TEMPLATES if thorough else rnd.sample(CHAR_TEMPLATES, 2):
        for p in positions(tmpl, 1):
            for mode in (["replace", "insert"] if thorough else [rnd.choice(["replace", "insert"])]):
                out.append(Cond(PROP, "c13.char", make_char, {"template": tmpl, "pos": p, "mode": mode, "tail": "\n@sealed\n"},
                                {"c": str}, assumptions=["c: any single Unicode character"],
                                witness={"c": " "}, budget=600.0 if thorough else 60.0, path_timeout=60.0, key="key_c13"))
    # c13.tiny
    out.append(Cond(PROP, "c13.tiny", make_tiny, {"n": 0, "first_class": "any"}, {"s": str}, witness={"s": ""}, budget=60.0,
                    assumptions=["definition text: the empty string"], key="key_c13"))
    out.append(Cond(PROP, "c13.tiny", make_tiny, {"n": 1, "first_class": "any"}, {"s": str}, witness={"s": "#"}, budget=120.0,
                    assumptions=["definition text: every str of length 1"], path_timeout=60.0, key="key_c13"))
    for cls in ["alpha", "digit", "space", "punct", "other"]:
        out.append(Cond(PROP, "c13.tiny", make_tiny, {"n": 2, "first_class": cls}, {"s": str},
                        witness={"s": {"alpha": "a ", "digit": "1 ", "space": " #", "punct": "@a", "other": "é "}[cls]},
                        budget=600.0 if thorough else 150.0, path_timeout=60.0,
                        assumptions=["definition text: every str of length 2 whose first character is in class %r" % cls],
                        key="key_c13"))
        if thorough:
            out.append(Cond(PROP, "c13.tiny", make_tiny, {"n": 3, "first_class": cls}, {"s": str},
                            witness={"s": {"alpha": "a b", "digit": "1 2", "space": " #x", "punct": "@ab", "other": "é a"}[cls]},
                            budget=1500.0, path_timeout=90.0,
                            assumptions=["definition text: every str of length 3 whose first character is in class %r" % cls],
                            key="key_c13"))
    # c13.tokens
    for ti in range(len(TOKEN_TEMPLATES)):
        for op in ["delete", "duplicate", "swap", "replace", "insert"]:
            if not thorough and op in ("replace", "insert") and ti not in (rnd.randrange(len(TOKEN_TEMPLATES)), 1):
                continue
            out.append(Cond(PROP, "c13.tokens", make_tokens, {"template": ti, "op": op}, {"p": int, "r": int}, kind="choice",
                            assumptions=["one token-level %s at every position of template %d (replacement pool of %d "
                                         "tokens)" % (op, ti, len(POOL))],
                            witness={"p": 1, "r": 0}, budget=240.0, need_exhaust=True, key="key_c13"))
    out.append(Cond(PROP, "c13.dep", make_dep, {"variant": 0}, {"i": int}, kind="choice", witness={"i": 2}, budget=120.0,
                    assumptions=["15 faulty dependency bodies (parse-stage and finalize-stage faults, self reference, back reference): "
                                 "the error must carry the DEPENDENCY's path"],
                    need_exhaust=True, key="key_c13"))
    out.append(Cond(PROP, "c13.dup-files", make_dup_files, {}, {"i": int, "same_text": int}, kind="choice",
                    assumptions=["two files of one directory mapping to the same name and version (with / without port-ID, "
                                 ".dsdl / .uavcan), same or different text"], witness={"i": 0, "same_text": 0}, budget=120.0,
                    need_exhaust=True, key="key_c13"))
    out.append(Cond(PROP, "c13.huge", make_huge, {}, {"i": int}, kind="choice", witness=None, budget=120.0,
                    assumptions=["numbers with more than 4300 decimal digits reaching a print / message / literal site"],
                    key="key_c13"))
    # c13.filename
    for which in ["port", "major", "minor", "short", "noport"]:
        for n in ([0, 1, 2] if thorough else [0, 1]):
            out.append(Cond(PROP, "c13.filename", make_filename, {"which": which, "n": n}, {"s": str},
                            assumptions=["file-name component %r: every str of length %d without '/' and NUL" % (which, n)],
                            stubs=["pydsdl._dsdl_definition.Path replaced by a pure-Python path stub (no OS calls); "
                                   "component strings stay symbolic"],
                            witness={"s": "7"[:n]}, budget=900.0 if thorough else 45.0, path_timeout=60.0, key="key_c13"))
    return out


def extra_evidence(tier: str) -> typing.Dict[str, typing.Any]:
    return {
        "bounds": {"symbolic text": "whole definition <= 2 (quick) / 3 (thorough) characters; one symbolic character in "
                                    "templates", "tokens": "%d templates, pool of %d tokens" % (len(TOKEN_TEMPLATES), len(POOL)),
                   "file names": "one symbolic component of length <= 1 (quick) / 2 (thorough) behind a path stub"},
        "outside": ["longer garbage, deep nesting (RecursionError), exponents that exhaust memory/time (2 ** 10**10)",
                    "file names as they arrive from a real directory listing (OS strings; see C15)"],
    }
