"""
C01 - bit length set algebra is exact for every composition and every divisor.
Real code driven: pydsdl.BitLengthSet public API -> every Operator subclass of _bit_length_set/_symbolic.py.
"""

from __future__ import annotations

import itertools
import random
import typing

from ..symx import Cond, pick
from ..oracle import bls as O

PROP = "C01"


def build(t: typing.List[typing.Any], leaves: typing.List[typing.Any], sugar: bool = False) -> typing.Any:
    from pydsdl import BitLengthSet

    pos = [0]

    def rec(t: typing.List[typing.Any]) -> typing.Any:
        op = t[0]
        if op == "leaf":
            n = int(t[1])
            vals = leaves[pos[0] : pos[0] + n]
            pos[0] += n
            return BitLengthSet(vals)
        if op == "pad":
            return rec(t[2]).pad_to_alignment(int(t[1]))
        if op == "rep":
            return rec(t[2]).repeat(int(t[1]))
        if op == "rng":
            return rec(t[2]).repeat_range(int(t[1]))
        chs = [rec(c) for c in t[1:]]
        if op == "cat":
            if sugar and len(chs) == 2:
                return chs[0] + chs[1]
            return BitLengthSet.concatenate(chs)
        if op == "uni":
            if sugar and len(chs) == 2:
                return chs[0] | chs[1]
            return BitLengthSet.unite(chs)
        raise ValueError(op)

    return rec(t)


def _argnames(n: int) -> typing.List[str]:
    return ["a%d" % i for i in range(n)]


def make_tree(tree: typing.List[typing.Any], ds: typing.List[int], expand: bool, sugar: bool = False, M: int = 0,
              res: typing.Optional[typing.List[int]] = None):
    """
    Analytic answers of the real tree vs O-BLS on symbolic leaves.  With M > 0 the leaves are M*q_i + res[i] with
    q_i the symbolic variables (residue class fixed by the scaffold, magnitude unbounded).
    """
    n = O.nleaves(tree)

    def h(*qs: int) -> typing.Any:
        for q in qs:
            if not q >= 0:
                return None
        leaves = list(qs) if not M else [M * q + res[i] for i, q in enumerate(qs)]  # type: ignore
        x = build(tree, leaves, sugar)
        E = O.expand(tree, leaves)
        lo, hi = O.smin(E), O.smax(E)
        if x.min != lo:
            return "min: got %r want %r" % (x.min, lo)
        if x.max != hi:
            return "max: got %r want %r" % (x.max, hi)
        if x.fixed_length != (lo == hi):
            return "fixed_length"
        for d in ds:
            got = [v for v in (x % d)]
            want = [e % d for e in E]
            if not O.same_members(got, want):
                return "residues mod %d: got %r want %r" % (d, got, want)
            al = True
            for w in want:
                if w != 0:
                    al = False
            if x.is_aligned_at(d) != al:
                return "is_aligned_at(%d)" % d
            if d == 8 and x.is_aligned_at_byte() != al:
                return "is_aligned_at_byte"
        if expand:
            got = [v for v in x]
            if not O.same_members(got, E):
                return "expansion: got %r want %r" % (got, E)
            if len(x) != O.distinct_count(E):
                return "len"
            if len(got) != O.distinct_count(E):
                return "iteration yields duplicates"
        return True

    h.__signature__ = None  # type: ignore
    return _fix_arity(h, n)


def make_expand(tree: typing.List[typing.Any], ds: typing.List[int], bound: int, sugar: bool = False):
    """Numerical expansion, len and the analytic answers on leaves drawn from 0..bound (choice domain)."""
    inner = make_tree(tree, ds, True, sugar)
    n = O.nleaves(tree)

    def h(*qs: int) -> typing.Any:
        vals = []
        for q in qs:
            v = pick(q, 0, bound)
            if v is None:
                return None
            vals.append(v)
        return inner(*vals)

    return _fix_arity(h, n)


def _fix_arity(h: typing.Callable[..., typing.Any], n: int) -> typing.Callable[..., typing.Any]:
    names = _argnames(n)
    src = "def w(%s):\n    return h(%s)\n" % (", ".join(names), ", ".join(names))
    ns = {"h": h}  # type: typing.Dict[str, typing.Any]
    exec(src, ns)  # pylint: disable=exec-used
    return ns["w"]  # type: ignore


def make_count(op: str, d: int, S: typing.List[int], qsym: bool):
    """
    Repetition with an UNBOUNDED symbolic count k over leaves with concrete residues S (mod d) and symbolic
    magnitudes: modulo(d) must be the k-fold (resp. <=k-fold) sumset of S in Z_d.  The oracle reduces k with
    O.reduce_count, which is justified for all k by lemma (L) (vp/lemma.py) - not by the code under test.
    """
    from pydsdl import BitLengthSet

    # the instance of lemma L / R for this very (S, d), checked concretely: justifies O.reduce_count here even for
    # divisors beyond the reach of the general SMT obligation
    assert O.fold_sumset(S, d, d) == O.fold_sumset(S, 2 * d, d), "lemma L instance fails"
    u = set()  # type: typing.Set[int]
    for i in range(d):
        u |= O.fold_sumset(S, i, d)
    assert u | O.fold_sumset(S, d, d) == u, "lemma R instance fails"

    def h(k: int, q: int) -> typing.Any:
        if not (k >= 0 and q >= 0):
            return None
        if not qsym:
            q = 3  # concrete magnitude: the symbolic q is unused
        leaves = [d * q + s for s in S]
        base = BitLengthSet(leaves)
        x = base.repeat(k) if op == "rep" else base.repeat_range(k)
        got = [v for v in (x % d)]
        j = O.reduce_count(k, d)
        want = None
        for jj in range(2 * d):
            if j == jj:
                if op == "rep":
                    want = O.fold_sumset(S, jj, d)
                else:
                    want = set()
                    for i in range(jj + 1):
                        want |= O.fold_sumset(S, i, d)
                break
        if want is None:
            return "oracle reduction out of range"
        if sorted(got) != sorted(want):
            return "k-fold residues mod %d: got %r want %r" % (d, sorted(got), sorted(want))
        if x.is_aligned_at(d) != (want == {0}):
            return "is_aligned_at"
        return True

    return h


def make_count_minmax(op: str, lo: int, hi: int):
    """min/max of repetition for unbounded symbolic k over concrete leaves {lo, hi}."""
    from pydsdl import BitLengthSet

    def h(k: int) -> typing.Any:
        if not k >= 0:
            return None
        base = BitLengthSet([lo, hi])
        x = base.repeat(k) if op == "rep" else base.repeat_range(k)
        wmin = lo * k if op == "rep" else 0
        if x.min != wmin:
            return "min"
        if x.max != hi * k:
            return "max"
        if x.fixed_length != (wmin == hi * k):
            return "fixed_length"
        return True

    return h


def make_memo(tree: typing.List[typing.Any], d1: int, d2: int):
    """
    MemoizationOperator transparency: queries issued in an order selected by the choice variable `order`, each twice;
    every answer equals that of a freshly built, never-queried tree.
    """
    n = O.nleaves(tree)
    queries = ["min", "max", "mod1", "mod2", "expand"]
    perms = list(itertools.permutations(range(len(queries))))

    def ask(x: typing.Any, q: str) -> typing.Any:
        if q == "min":
            return x.min
        if q == "max":
            return x.max
        if q == "mod1":
            return sorted(v for v in (x % d1))
        if q == "mod2":
            return sorted(v for v in (x % d2))
        return sorted(v for v in x)

    def h(order: int, *qs: int) -> typing.Any:
        o = pick(order, 0, len(perms) - 1)
        if o is None:
            return None
        v = pick(qs[0], 0, 1)
        if v is None:
            return None
        leaves = [3 * v + 5 * i for i in range(len(qs))]
        x = build(tree, leaves)
        perm = perms[o]
        for rnd in range(2):
            for qi in perm:
                q = queries[qi]
                fresh = build(tree, leaves)
                if ask(x, q) != ask(fresh, q):
                    return "memoised %s differs from fresh (round %d, order %r)" % (q, rnd, perm)
        return True

    names = ["order"] + _argnames(n)
    src = "def w(%s):\n    return h(%s)\n" % (", ".join(names), ", ".join(names))
    ns = {"h": h}  # type: typing.Dict[str, typing.Any]
    exec(src, ns)  # pylint: disable=exec-used
    return ns["w"]


def make_immutable(tree: typing.List[typing.Any], outer: str, param: int):
    """Operands are never changed by building new sets from them."""
    n = O.nleaves(tree)

    def snapshot(x: typing.Any) -> typing.Any:
        return (repr(x), x.min, x.max, sorted(v for v in (x % 8)), sorted(v for v in (x % 3)), sorted(v for v in x))

    def h(*qs: int) -> typing.Any:
        vals = []
        for q in qs:
            v = pick(q, 0, 9)
            if v is None:
                return None
            vals.append(v)
        qs = tuple(vals)
        from pydsdl import BitLengthSet

        x = build(tree, list(qs))
        other = BitLengthSet([qs[0], 7])
        before = snapshot(x), snapshot(other)
        if outer == "pad":
            y = x.pad_to_alignment(param)
        elif outer == "rep":
            y = x.repeat(param)
        elif outer == "rng":
            y = x.repeat_range(param)
        elif outer == "cat":
            y = x + other
        elif outer == "rcat":
            y = [1, 2] + x
        elif outer == "uni":
            y = x | other
        elif outer == "iadd":
            y = x  # an alias: augmented assignment must rebind the name, never rewrite the object both names refer to
            y += other
            y += 8
        elif outer == "ior":
            y = x
            y |= other
        else:
            y = {5} | x
        _ = y.min, y.max, [v for v in (y % 5)], [v for v in y]
        if (snapshot(x), snapshot(other)) != before:
            return "operand changed by %s" % outer
        return True

    return _fix_arity(h, n)


# ------------------------------------------------------------------------------------------------------------------

L1, L2, L3 = ["leaf", 1], ["leaf", 2], ["leaf", 3]


def _sig(n: int) -> typing.Dict[str, type]:
    return {k: int for k in _argnames(n)}


def _wit(n: int) -> typing.Dict[str, int]:
    return {k: 3 + 5 * i for i, k in enumerate(_argnames(n))}


def _wit_big(n: int) -> typing.Dict[str, int]:
    # The concrete witness uses magnitudes beyond 2**53: the engine models int/int division over the reals, so a slip
    # into machine floats (exact only up to 2**53) is visible in plain CPython only.
    return {k: 2 ** 60 + 3 + 5 * i for i, k in enumerate(_argnames(n))}


def _unary_ops(tier: str) -> typing.List[typing.Tuple[str, int]]:
    return [("pad", 8), ("pad", 3), ("rep", 2), ("rep", 3), ("rng", 2), ("rng", 3)]


LOOKALIKE = [([8, 40, 72], [8, 72]), ([0, 96, 192], [0, 192]), ([3, 35, 67, 99], [3, 99]), ([16, 48], [16, 48]),
             ([1, 33, 65], [1, 65]), ([0, 32, 96], [0, 64, 96]), ([8, 40, 104], [8, 72, 104])]


def make_lookalike(pair: int, op: str):
    """
    The same operation applied, in one process, to two DIFFERENT sets that agree on min, max and residues mod 32 (what
    the approximate == / hash look at): each result must be that of its own operand (no result may be shared).
    """
    from pydsdl import BitLengthSet

    class O_:
        @staticmethod
        def fold(vals: typing.Set[int], k: int) -> typing.Set[int]:
            out = {0}
            for _ in range(k):
                out = {x + y for x in out for y in vals}
            return out

    def concrete(k: int, order: int) -> typing.Any:
        a, b = LOOKALIKE[pair]
        seq = [a, b] if order == 0 else [b, a]
        for vals in seq + seq:
            x = BitLengthSet(vals)
            if op == "rep":
                y, want = x.repeat(k), O_.fold(set(vals), k)
            elif op == "rng":
                y, want = x.repeat_range(k), set().union(*[O_.fold(set(vals), j) for j in range(k + 1)])
            elif op == "pad":
                r = [1, 3, 8, 64][k % 4]
                y, want = x.pad_to_alignment(r), {-((-v) // r) * r for v in vals}
            elif op == "cat":
                y, want = x + BitLengthSet([k, 5]), {v + w for v in vals for w in (k, 5)}
            elif op == "unite":
                a2, b2 = LOOKALIKE[pair]
                other = b2 if vals == a2 else a2
                y = BitLengthSet.unite([x, BitLengthSet(other), BitLengthSet([k])]) if order else (x | BitLengthSet(other) | k)
                want = set(vals) | set(other) | {k}
            else:
                y, want = x | BitLengthSet([k]), set(vals) | {k}
            got = {v for v in y}
            if got != want:
                return "%s(%s, %d) after the same operation on a look-alike set: %s, want %s" % (op, vals, k, sorted(got), sorted(want))
            for d in (8, 32, 64, 7):
                if {v for v in (y % d)} != {v % d for v in want}:
                    return "%s(%s, %d) %% %d" % (op, vals, k, d)
            if y.min != min(want) or y.max != max(want):
                return "min/max"
        return True

    def h(k: int, order: int) -> typing.Any:
        a, b = pick(k, 0, 3), pick(order, 0, 1)
        if a is None or b is None:
            return None
        from .. import textio

        return textio.native(concrete, a, b)

    return h


def conditions(tier: str, seed: int) -> typing.List[Cond]:
    out = _conditions(tier, seed)
    for pi in range(len(LOOKALIKE)):
        for op in ("rep", "rng", "pad", "cat", "uni", "unite"):
            out.append(Cond(PROP, "c01.lookalike", make_lookalike, {"pair": pi, "op": op}, {"k": int, "order": int}, kind="choice",
                            assumptions=["two different sets equal in min, max and residues mod 32; parameter k in 0..3; both orders"],
                            witness={"k": 2, "order": 0}, budget=120.0))
    return out


def _conditions(tier: str, seed: int) -> typing.List[Cond]:
    rnd = random.Random(seed)
    thorough = tier == "thorough"
    out = []  # type: typing.List[Cond]
    A = ["leaves a_i >= 0, unbounded mathematical integers"]

    def tree_cond(group: str, tree: typing.Any, ds: typing.List[int], budget: float = 120.0,
                  sugar: bool = False, M: int = 0, res: typing.Optional[typing.List[int]] = None) -> None:
        n = O.nleaves(tree)
        sc = {"tree": tree, "ds": ds, "expand": False, "sugar": sugar}  # type: typing.Dict[str, typing.Any]
        assume = list(A)
        if M:
            sc.update({"M": M, "res": res})
            assume = ["leaves a_i = %d*q_i + res_i with q_i >= 0 unbounded (residue class is scaffolding)" % M]
        out.append(Cond(PROP, group, make_tree, sc, _sig(n), assumptions=assume, witness=_wit_big(n), budget=budget))

    def expand_cond(group: str, tree: typing.Any, ds: typing.List[int], bound: int, sugar: bool = False) -> None:
        n = O.nleaves(tree)
        out.append(Cond(PROP, group, make_expand, {"tree": tree, "ds": ds, "bound": bound, "sugar": sugar}, _sig(n),
                        kind="choice", assumptions=["leaves in 0..%d (choice domain)" % bound],
                        witness={k: 1 + i for i, k in enumerate(_argnames(n))}, budget=200.0))

    # 1. single operators over symbolic leaves
    for r in [1, 2, 3, 8] + ([5, 16, 64] if thorough else []):
        for d in [1, 2, 3, 8] + ([5, 7, 16, 32, 64] if thorough else [16]):
            tree_cond("c01.node.pad", ["pad", r, L1], [d])
    for r, d in [(8, 8), (2, 3), (4, 8)] + ([(8, 16), (8, 32), (3, 8), (16, 8), (8, 3)] if thorough else []):
        tree_cond("c01.node.pad2", ["pad", r, L2], [d])
    for d in [1, 2, 3] + ([4, 5, 8] if thorough else []):
        tree_cond("c01.node.cat", ["cat", L2, L1], [d], sugar=True, budget=400.0 if thorough else 120.0)
        tree_cond("c01.node.uni", ["uni", L2, L1], [d], sugar=True, budget=400.0 if thorough else 120.0)
    for r1 in (2, 3, 4, 6, 8):
        for r2 in (2, 3, 4, 6, 8):
            # consecutive paddings (also with alignments that do not divide one another)
            tree_cond("c01.node.padpad", ["pad", r2, ["pad", r1, L1]], [r2])
    tree_cond("c01.node.cat3", ["cat", L1, L2, L1], [2])
    tree_cond("c01.node.uni3", ["uni", L1, L1, L1], [2, 3] if thorough else [2], budget=300.0)
    for d in [8, 16] + ([5, 32, 64] if thorough else []):
        res = [rnd.randrange(d) for _ in range(4)]
        tree_cond("c01.node.cat-class", ["cat", L2, L1], [d], sugar=True, M=d, res=res[:3])
        tree_cond("c01.node.uni-class", ["uni", L2, L1], [d], sugar=True, M=d, res=res[:3])
        tree_cond("c01.node.cat-class", ["cat", L1, L2, L1], [d], M=d, res=res)
    for k, d in [(0, 8), (1, 8), (2, 2), (2, 3), (3, 2), (3, 3), (4, 3)] + ([(5, 3), (5, 2), (3, 8), (6, 4)] if thorough else []):
        tree_cond("c01.node.rep", ["rep", k, L2], [d])
        tree_cond("c01.node.rng", ["rng", k, L2], [d])
    # larger counts and divisors: residue classes fixed, magnitudes symbolic
    big = [(7, 4), (9, 4), (12, 5), (33, 16), (64, 8), (65, 32)] + ([(17, 8)] if thorough else [])
    if thorough:
        big += [(k, d) for k in (5, 11, 63, 127, 1000, 2**20 + 3) for d in (3, 6, 7, 8)] + [(255, 8), (256, 16)]
    for k, d in big:
        for _ in range(2 if thorough else 1):
            res = [rnd.randrange(d), rnd.randrange(d)]
            tree_cond("c01.node.rep-class", ["rep", k, L2], [d], M=d, res=res)
            if d <= 8 and k <= 17:
                tree_cond("c01.node.rng-class", ["rng", k, L2], [d], M=d, res=res, budget=240.0)

    # 1b. numerical expansion / len on small leaves (choice-exhaustive)
    exp_trees = [["pad", 8, L2], ["pad", 3, L2], ["cat", L2, L1], ["uni", L2, L1], ["rep", 0, L2], ["rep", 2, L2],
                 ["rng", 0, L2], ["rng", 2, L2], ["pad", 4, ["rng", 2, L2]], ["cat", ["pad", 8, L1], ["rep", 2, L1]],
                 ["rng", 2, ["pad", 3, L2]], ["uni", ["rep", 3, L1], ["pad", 5, L1]]]
    if thorough:
        exp_trees += [["rep", 3, L2], ["rng", 3, L2], ["pad", 8, ["cat", ["rng", 2, L1], L1]],
                      ["rep", 2, ["uni", L1, ["pad", 4, L1]]], ["rng", 2, ["cat", L1, L1]]]
        exp_trees += [_random_tree(rnd, 2) for _ in range(10)]
    for t in exp_trees:
        if O.nleaves(t) <= 3 and _size(t) <= 40:
            expand_cond("c01.expand", t, [rnd.choice([2, 3, 8])], 9 if O.nleaves(t) <= 2 else 4, sugar=True)

    # 2. nestings: every ordered pair of operators, then seeded triples
    unary = _unary_ops(tier)
    pairs = []  # type: typing.List[typing.Any]
    for (o1, p1), (o2, p2) in itertools.product(unary, unary):
        pairs.append([o1, p1, [o2, p2, L2]])
    for o1, p1 in unary:
        pairs.append([o1, p1, ["cat", L1, L2]])
        pairs.append([o1, p1, ["uni", L1, L2]])
        pairs.append(["cat", [o1, p1, L2], L1])
        pairs.append(["uni", [o1, p1, L2], L1])
    pairs.append(["cat", ["uni", L1, L1], L2])
    pairs.append(["uni", ["cat", L1, L1], L2])
    pairs.append(["cat", ["cat", L1, L1], L1])
    pairs.append(["uni", ["uni", L1, L1], L1])
    if not thorough:
        keep = set(rnd.sample(range(len(pairs)), 24))
        # always keep the structure-like shapes (pad over cat, rng under cat, pad over rng)
        pairs = [p for i, p in enumerate(pairs) if i in keep or (p[0] == "pad" and p[2][0] in ("cat", "rng", "uni"))]
    for t in pairs:
        d = rnd.choice([2, 3, 4, 8])
        M = _lcm_of(t, [d])
        res = [rnd.randrange(M) for _ in range(O.nleaves(t))]
        tree_cond("c01.tree2-class", t, [d], budget=150.0, M=M, res=res)
    for _ in range(40 if thorough else 12):
        t = _random_tree(rnd, 3)
        if _size(t) > 60 or O.nleaves(t) > 5:
            continue
        d = rnd.choice([2, 3, 8])
        M = _lcm_of(t, [d])
        res = [rnd.randrange(M) for _ in range(O.nleaves(t))]
        tree_cond("c01.tree3-class", t, [d], budget=150.0, M=M, res=res)

    # 3. unbounded symbolic repetition count
    for d in list(range(1, 9)) + [16] + ([10, 12, 24, 32, 64] if thorough else [32]):
        subsets = _subsets(d, rnd, 6 if not thorough else 16)
        for S in subsets:
            for op in ("rep", "rng"):
                if op == "rng" and d > 16 and len(S) >= 2:
                    continue  # engine limit: > ~700 set.add calls on a lazily-combined symbolic set overflow the C stack
                qsym = d <= 6 or (len(S) == 1 and d <= 16)
                out.append(
                    Cond(PROP, "c01.count." + op, make_count, {"op": op, "d": d, "S": S, "qsym": qsym},
                         {"k": int, "q": int},
                         assumptions=["k >= 0 unbounded", "leaves d*q + s, s in S (scaffold), q >= 0 unbounded"
                                      if qsym else "leaves d*3 + s, s in S (scaffold)"],
                         witness={"k": 5 * d + 1, "q": 3}, budget=150.0)
                )
    for op in ("rep", "rng"):
        for lo, hi in [(0, 0), (1, 1), (3, 8), (0, 64)]:
            out.append(Cond(PROP, "c01.count.minmax", make_count_minmax, {"op": op, "lo": lo, "hi": hi}, {"k": int},
                            assumptions=["k >= 0 unbounded"], witness={"k": 7}, budget=60.0))

    # 4. memoisation transparency and operand immutability (choice-exhaustive)
    memo_trees = [["pad", 8, ["rng", 2, L1]], ["cat", ["rep", 2, L1], L1], ["uni", ["pad", 4, L1], L2],
                  ["pad", 8, ["rng", 2, L2]]]
    for t in memo_trees[: (4 if thorough else 2)]:
        n = O.nleaves(t)
        sig = {"order": int}  # type: typing.Dict[str, type]
        sig.update(_sig(n))
        w = {"order": 17}
        w.update({k: 1 for k in _argnames(n)})
        out.append(Cond(PROP, "c01.memo", make_memo, {"tree": t, "d1": 8, "d2": 3}, sig, kind="choice",
                        assumptions=["order in 0..119 (all permutations of 5 queries)", "leaf_i = 3*a0 + 5*i, a0 in 0..1 (other leaf arguments unused)"],
                        witness=w, budget=240.0))
    for outer, param in [("pad", 8), ("rep", 2), ("rng", 2), ("cat", 0), ("rcat", 0), ("uni", 0), ("runi", 0), ("iadd", 0),
                         ("ior", 0)]:
        t = ["pad", 4, L2] if outer != "pad" else ["rng", 2, L2]
        out.append(Cond(PROP, "c01.immutable", make_immutable, {"tree": t, "outer": outer, "param": param}, _sig(2),
                        kind="choice", assumptions=["leaves in 0..9"], witness=_wit(2), budget=150.0))
    return out


def _size(t: typing.Any) -> int:
    """Rough size of the oracle expansion (number of terms)."""
    if t[0] == "leaf":
        return int(t[1])
    if t[0] == "pad":
        return _size(t[2])
    if t[0] == "rep":
        n, k = _size(t[2]), int(t[1])
        return _multichoose(n, k)
    if t[0] == "rng":
        n = _size(t[2])
        return sum(_multichoose(n, j) for j in range(int(t[1]) + 1))
    if t[0] == "uni":
        return sum(_size(c) for c in t[1:])
    p = 1
    for c in t[1:]:
        p *= _size(c)
    return p


def _multichoose(n: int, k: int) -> int:
    import math

    return math.comb(n + k - 1, k)


def _lcm_of(t: typing.Any, ds: typing.List[int]) -> int:
    import math

    m = 1
    for d in ds:
        m = math.lcm(m, d)

    def rec(t: typing.Any) -> None:
        nonlocal m
        if t[0] == "pad":
            m = math.lcm(m, int(t[1]))
        for c in t[1:]:
            if isinstance(c, list):
                rec(c)

    rec(t)
    return m


def _random_tree(rnd: random.Random, depth: int) -> typing.Any:
    if depth == 0:
        return ["leaf", rnd.choice([1, 1, 2])]
    op = rnd.choice(["pad", "pad", "rep", "rng", "cat", "uni"])
    if op == "pad":
        return ["pad", rnd.choice([2, 3, 4, 8]), _random_tree(rnd, depth - 1)]
    if op in ("rep", "rng"):
        return [op, rnd.choice([1, 2, 3]), _random_tree(rnd, depth - 1)]
    return [op, _random_tree(rnd, depth - 1), _random_tree(rnd, rnd.randrange(depth))]


def _subsets(d: int, rnd: random.Random, limit: int) -> typing.List[typing.List[int]]:
    if d <= 3:
        alls = [list(c) for n in range(1, d + 1) for c in itertools.combinations(range(d), n)]
        return alls
    out = [[0], [1], [d - 1], [0, 1], [1, d - 1]]
    if d % 2 == 0:
        out.append([d // 2])
        out.append([0, d // 2])
        out.append([2, d // 2 + 1])
    while len(out) < limit:
        n = rnd.choice([1, 2, 2, 3])
        S = sorted(rnd.sample(range(d), n))
        if S not in out:
            out.append(S)
    return out[:limit]


def lemmas(tier: str, seed: int) -> typing.List[typing.Dict[str, typing.Any]]:
    import os
    from .. import lemma

    ds = range(2, 17) if tier == "thorough" else range(2, 13)
    return lemma.run(ds, 600.0 if tier == "thorough" else 120.0, 12, os.cpu_count() or 4)


def extra_evidence(tier: str) -> typing.Dict[str, typing.Any]:
    return {
        "bounds": {
            "leaf values": "unbounded non-negative integers (or fixed residue class with unbounded magnitude)",
            "repetition count k": "unbounded in c01.count.*; concrete small k elsewhere",
            "divisors": "1..8, 16, 32 (quick); up to 64 (thorough)",
            "tree depth": "<= 3",
            "leaf cardinality": "<= 3",
            "lemma L/R": "general S for d <= 12 (quick) / 16 (thorough); for larger d only the concrete (S, d) "
            "instances used by c01.count are checked (by computation)",
        },
        "outside": [
            "trees deeper than 3, leaf cardinality > 3",
            "general sumset lemma for d > 16",
            "numerical expansion with leaves > 9 (choice-exhaustive conditions)",
            "negative leaf values",
        ],
    }
