"""
C14 - delimited (appendable) types evolve without breaking containers or the wire.
Real code driven: DelimitedType (bit_length_set from extent only), container constructors, iterate_fields_with_offsets,
serialize / deserialize (delimiter header, bounded sub-reader, skipping) - on pairs of revisions (D, D') of one
appendable type with the same SYMBOLIC extent, nested as field, array element, union variant and inside another
delimited type.  Values of the leaves are symbolic.
"""

from __future__ import annotations

import typing

from ..symx import Cond, pick
from .. import types as T

PROP = "C14"

# revisions of the appendable type: field lists, each a prefix of the next
REVISIONS = [
    [],
    ["u8"],
    ["u8", "u16"],
    ["u8", "u16", "u8", ["varr", "u16", 2]],
    ["u8", "u16", "u8", ["varr", "u16", 2], ["struct", ["u8"]], "bool"],
]
# further families of revisions (same rule: each field list is a prefix of the next)
FAMILIES = {
    "ints": REVISIONS,
    "bytes": [["u8"], ["u8", ["farr", "byte", 3]], ["u8", ["farr", "byte", 3], ["varr", "utf8", 2]]],
    "varlen": [[["varr", "u8", 2]], [["varr", "u8", 2], "u16"], [["varr", "u8", 2], "u16", "u8"]],
    # appended fields that are themselves appendable types (an absent nested delimiter header must read as zero)
    "nested": [["u8"], ["u8", ["delim", ["struct", ["u8"]], 16]],
               ["u8", ["delim", ["struct", ["u8"]], 16], ["farr", ["delim", ["struct", ["u16"]], 16], 2]]],
}
MIN_EXTENT = 88  # longest representation of the longest revision, padded to a byte: 8+16+8+(8+32)+8+1 -> 88

# containers: X marks the place of the appendable type; every container has something AFTER the nested object
CONTAINERS = {
    "field": ["struct", ["u8", "X", "u16", "u8"]],
    "farray": ["struct", [["farr", "X", 2], "u8"]],
    "varray": ["struct", [["varr", "X", 2], "u16"]],
    "variant": ["struct", [["union", ["u16", "X"]], "u8"]],
    "nested": ["struct", [["delim", ["struct", ["u8", "X", "u8"]], "e2"], "u8"]],
    "nested-array": ["struct", [["farr", ["delim", ["struct", ["X", "u8"]], "e2"], 2], "u8"]],
    "unaligned": ["struct", ["u3", "X", "u5", "u8"]],
    # the nested object is the LAST thing on the wire; the READER's container has grown two more fields meanwhile
    "tail-grow": ["struct", ["u8", "X"]],
}
READER_CONTAINERS = {"tail-grow": ["struct", ["u8", "X", "u8", "u16"]]}


def _subst(c: typing.Any, d: typing.Any) -> typing.Any:
    if c == "X":
        return d
    if isinstance(c, (str, int)) or c is None:
        return c
    return [_subst(x, d) for x in c]


def _build_pair(container: str, old: int, new: int, e: typing.Any, e2: typing.Any, family: str = "ints") -> typing.Tuple[typing.Any, typing.Any]:
    """Two containers that differ only in the revision of the nested appendable type; same names on both sides."""
    out = []
    for rev in (old, new):
        T._counter[0] = 1000  # pylint: disable=protected-access  (same generated type names for both revisions)
        d = ["delim", ["struct", FAMILIES[family][rev]], "e"]
        out.append(T.build(_subst(CONTAINERS[container], d), {"e": e, "e2": e2}))
    return out[0], out[1]


def _build_reader(container: str, rev: int, e: typing.Any, e2: typing.Any, family: str) -> typing.Any:
    """The reader's own (grown) container around revision `rev`, where it differs from the writer's."""
    T._counter[0] = 1000  # pylint: disable=protected-access
    d = ["delim", ["struct", FAMILIES[family][rev]], "e"]
    return T.build(_subst(READER_CONTAINERS[container], d), {"e": e, "e2": e2})


# ------------------------------------------------------------------------------------------------------------------
# c14.layout


def make_layout(container: str, old: int, new: int, r: int):
    def h(q: int) -> typing.Any:
        if not 2 <= q <= 2 ** 40:
            return None
        c = 8 * q + r  # extent = 64*q + 8*r bits: its residue mod 64 is scaffolding, the magnitude symbolic
        e = 8 * c
        e2 = 8 * c + 64 * 8
        a, b = _build_pair(container, old, new, e, e2)
        if a.bit_length_set.min != b.bit_length_set.min or a.bit_length_set.max != b.bit_length_set.max:
            return "container bit_length_set min/max differ between revisions"
        if a.extent != b.extent:
            return "container extent differs"
        for d in (8, 64):
            if {x for x in a.bit_length_set % d} != {x for x in b.bit_length_set % d}:
                return "container lengths mod %d differ" % d
        if a.bit_length_set != b.bit_length_set:
            return "bit length sets compare unequal"  # hash() realises a symbolic magnitude: checked in c14.layout-exact
        fa = list(a.iterate_fields_with_offsets())
        fb = list(b.iterate_fields_with_offsets())
        if len(fa) != len(fb):
            return "field count"
        if container in READER_CONTAINERS:
            fa, fb = fa, fb  # layout clause concerns one container with two revisions of the nested type only
        for (f1, o1), (f2, o2) in zip(fa, fb):
            if f1.name != f2.name:
                return "field order"
            if o1.min != o2.min or o1.max != o2.max or {x for x in o1 % 8} != {x for x in o2 % 8}:
                return "offset of field %r differs between revisions" % f1.name
        return True

    return h


def make_layout_exact(container: str, old: int, new: int):
    """Small concrete extents: exact expanded equality of container sets and of every field offset."""

    def concrete(c: int) -> typing.Any:
        a, b = _build_pair(container, old, new, 8 * c, 8 * c + 64)
        if {x for x in a.bit_length_set} != {x for x in b.bit_length_set}:
            return "container bit length sets differ"
        if a.bit_length_set != b.bit_length_set or hash(a.bit_length_set) != hash(b.bit_length_set):
            return "container bit length sets compare / hash unequal"
        if a.extent != b.extent:
            return "container extent differs"
        for (f1, o1), (f2, o2) in zip(a.iterate_fields_with_offsets(), b.iterate_fields_with_offsets()):
            if {x for x in o1} != {x for x in o2}:
                return "offsets of %r differ" % f1.name
        return True

    def h(c: int) -> typing.Any:
        k = pick(c, MIN_EXTENT // 8, MIN_EXTENT // 8 + 3)
        if k is None:
            return None
        from .. import textio

        return textio.native(concrete, k)

    return h


# ------------------------------------------------------------------------------------------------------------------
# c14.wire


def _dvalue(rev: int, vals: typing.Sequence[typing.Any], n3: int) -> typing.Dict[str, typing.Any]:
    """Value of revision `rev` from the symbolic leaves vals = (a, b, c, d, g)."""
    a, b, c, d, g = vals
    full = {"f0": a, "f1": b, "f2": c, "f3": [d, d + 1][:n3], "f4": {"f0": g}, "f5": True}
    return {"f%d" % i: full["f%d" % i] for i in range(len(REVISIONS[rev]))}


def _convert(v: typing.Dict[str, typing.Any], to_rev: int) -> typing.Dict[str, typing.Any]:
    """What a reader of revision `to_rev` must see: common fields kept, unknown-to-writer fields zero / empty."""
    zero = {"f0": 0, "f1": 0, "f2": 0, "f3": [], "f4": {"f0": 0}, "f5": False}
    return {"f%d" % i: (v["f%d" % i] if "f%d" % i in v else zero["f%d" % i]) for i in range(len(REVISIONS[to_rev]))}


def _full_value(family: str, vals: typing.Sequence[typing.Any], n3: int) -> typing.Tuple[typing.Dict[str, typing.Any], typing.Dict[str, typing.Any]]:
    """(value of the longest revision, what a reader sees for fields the writer did not know) for the other families."""
    a, b, c, d, g = vals
    if family == "bytes":
        return ({"f0": a, "f1": bytes([65, 66, 67]), "f2": "hi"[:n3]}, {"f0": 0, "f1": bytes(3), "f2": ""})
    if family == "nested":
        return ({"f0": a, "f1": {"f0": c}, "f2": [{"f0": b}, {"f0": b}]}, {"f0": 0, "f1": {"f0": 0}, "f2": [{"f0": 0}, {"f0": 0}]})
    return ({"f0": [a, c][:n3], "f1": b, "f2": g}, {"f0": [], "f1": 0, "f2": 0})


def _wrap(container: str, xs: typing.List[typing.Any], t: typing.Sequence[typing.Any], variant_x: bool) -> typing.Any:
    """Container value around the nested object(s) xs; t = symbolic values of the surrounding fields."""
    if container == "field":
        return {"f0": t[0], "f1": xs[0], "f2": t[1], "f3": t[2]}
    if container == "farray":
        return {"f0": [xs[0], xs[1]], "f1": t[0]}
    if container == "varray":
        return {"f0": list(xs), "f1": t[1]}
    if container == "variant":
        return {"f0": ({"f1": xs[0]} if variant_x else {"f0": t[1]}), "f1": t[0]}
    if container == "nested":
        return {"f0": {"f0": t[0], "f1": xs[0], "f2": t[2]}, "f1": t[0]}
    if container == "nested-array":
        return {"f0": [{"f0": xs[0], "f1": t[0]}, {"f0": xs[1], "f1": t[2]}], "f1": t[0]}
    if container == "unaligned":
        return {"f0": 5, "f1": xs[0], "f2": 9, "f3": t[0]}
    if container == "tail-grow":
        return {"f0": t[0], "f1": xs[0]}
    raise ValueError(container)


def make_wire(container: str, writer: int, reader: int, n_objects: int, n3: int, variant_x: bool, c: int, pin: bool,
              family: str = "ints"):
    e = 8 * c
    e2 = e + 64 * 8 if container == "nested" else e + 96 + 8  # the enclosing delimited type must admit X + its own fields
    e2 = e + 32 + 16 + 64

    def h(a: int, b: int, cc: int, d: int, g: int, t0: int, t1: int, t2: int) -> typing.Any:
        import pydsdl

        if not (0 <= a <= 255 and 0 <= b <= 65535 and 0 <= cc <= 255 and 0 <= d <= 65534 and 0 <= g <= 255):
            return None
        if not (0 <= t0 <= 255 and 0 <= t1 <= 65535 and 0 <= t2 <= 255):
            return None
        if pin and not (cc == 7 and g == 201 and t1 == 40000 and t2 == 3):
            return None  # quick tier: only a, b, d, t0 stay symbolic
        if container == "unaligned" and t0 != 77:
            return None  # the field after the nested object sits at a sub-byte offset: 2**8 paths if symbolic
        lo, hi = min(writer, reader), max(writer, reader)
        told, tnew = _build_pair(container, lo, hi, e, e2, family)
        tw, tr = (told, tnew) if writer <= reader else (tnew, told)
        if family == "ints":
            xs_w = [_dvalue(writer, (a, b, cc, d, g), n3), _dvalue(writer, (cc, b + 0, a, d, g), n3)][:n_objects]
            xs_r = [_convert(x, reader) for x in xs_w]
        else:
            revs = FAMILIES[family]
            xs_w, xs_r = [], []
            for vals in ((a, b, cc, d, g), (cc, b + 0, a, d, g)):
                full, zero = _full_value(family, vals, n3)
                xw = {"f%d" % i: full["f%d" % i] for i in range(len(revs[writer]))}
                xs_w.append(xw)
                xs_r.append({"f%d" % i: (xw["f%d" % i] if "f%d" % i in xw else zero["f%d" % i]) for i in range(len(revs[reader]))})
            xs_w, xs_r = xs_w[:n_objects], xs_r[:n_objects]
        vw = _wrap(container, xs_w, (t0, t1, t2), variant_x)
        want = _wrap(container, xs_r, (t0, t1, t2), variant_x)
        if container in READER_CONTAINERS:
            tr = _build_reader(container, reader, e, e2, family)
            want = dict(want)
            want.update({"f2": 0, "f3": 0})  # fields the writer's container did not have: zero extension
        data = pydsdl.serialize(tw, vw)
        got = pydsdl.deserialize(tr, data)
        if got != want:
            return "written with revision %d, read with %d: got %r, want %r" % (writer, reader, got, want)
        # and the container survives a round trip through the reader's own revision
        again = pydsdl.deserialize(tr, pydsdl.serialize(tr, got))
        if again != got:
            return "re-serialising with the reader's revision changes the value"
        return True

    return h


# ------------------------------------------------------------------------------------------------------------------


def conditions(tier: str, seed: int) -> typing.List[Cond]:
    import random

    rnd = random.Random(seed)
    thorough = tier == "thorough"
    out = []  # type: typing.List[Cond]
    pairs = [(i, j) for i in range(len(REVISIONS)) for j in range(i + 1, len(REVISIONS))]
    for cname in CONTAINERS:
        ps = pairs if thorough else rnd.sample(pairs, 3)
        for old, new in ps:
            for r in ([0, 3, 7] if thorough else [rnd.randrange(8)]):
                out.append(Cond(PROP, "c14.layout", make_layout, {"container": cname, "old": old, "new": new, "r": r},
                                {"q": int},
                                assumptions=["extent 64*q + %d bits, q in [2, 2**40] (symbolic); enclosing delimited extent "
                                             "512 bits larger" % (8 * r)],
                                witness={"q": 3}, budget=120.0, need_exhaust=True))
            out.append(Cond(PROP, "c14.layout-exact", make_layout_exact, {"container": cname, "old": old, "new": new},
                            {"c": int}, kind="choice", assumptions=["extent 8*c, c in 11..14: exact expanded sets"],
                            witness={"c": 11}, budget=120.0, need_exhaust=True))
    for cname in CONTAINERS:
        ps = [(i, j) for i in range(len(REVISIONS)) for j in range(len(REVISIONS)) if i != j]
        if not thorough:
            ps = rnd.sample(ps, 4) + [(2, 3), (3, 2)]
        elif cname not in ("field", "variant"):
            ps = rnd.sample(ps, 8) + [(2, 3), (3, 2)]
        for w, r in ps:
            nobj = 2 if cname in ("farray", "varray", "nested-array") else 1
            variants = [(nobj, 2, True)]
            if cname == "varray":
                variants = [(2, 1, True), (1, 2, True), (0, 0, True)] if thorough else [(2, 1, True), (rnd.choice([0, 1]), 0, True)]
            if cname == "variant":
                variants = [(1, 2, True), (1, 0, False)]
            for n_objects, n3, vx in variants:
                c = rnd.choice([11, 12, 16, 40])
                out.append(Cond(PROP, "c14.wire", make_wire,
                                {"container": cname, "writer": w, "reader": r, "n_objects": n_objects, "n3": n3,
                                 "variant_x": vx, "c": c, "pin": not (thorough and cname in ("field", "variant", "varray"))},
                                {"a": int, "b": int, "cc": int, "d": int, "g": int, "t0": int, "t1": int, "t2": int},
                                assumptions=["leaf values: every value of their uint8/uint16 types (symbolic)",
                                             "extent %d bits; array length / union variant are scaffolding" % (8 * c)],
                                witness={"a": 1, "b": 515, "cc": 7, "d": 40000, "g": 201, "t0": 77, "t1": 40000, "t2": 3},
                                budget=240.0 if not thorough else 150.0, need_exhaust=True))
    for family in ("bytes", "varlen", "nested"):
        nrev = len(FAMILIES[family])
        for cname in CONTAINERS:
            ps = [(i, j) for i in range(nrev) for j in range(nrev) if i != j]
            if not thorough:
                ps = rnd.sample(ps, 3) + [(0, 1), (1, 0)]
            for w, r in ps:
                nobj = 2 if cname in ("farray", "varray", "nested-array") else 1
                for n3 in ((0, 1, 2) if family == "varlen" else (2,)):
                    out.append(Cond(PROP, "c14.wire-" + family, make_wire,
                                    {"container": cname, "writer": w, "reader": r, "n_objects": nobj, "n3": n3,
                                     "variant_x": True, "c": rnd.choice([11, 12, 16]) if family != "nested" else rnd.choice([19, 24]),
                                     "pin": True, "family": family},
                                    {"a": int, "b": int, "cc": int, "d": int, "g": int, "t0": int, "t1": int, "t2": int},
                                    assumptions=["revision family %s: %s" % (family, FAMILIES[family]),
                                                 "integer leaves symbolic over their ranges (4 pinned)"],
                                    witness={"a": 1, "b": 515, "cc": 7, "d": 40000, "g": 201, "t0": 77, "t1": 40000, "t2": 3},
                                    budget=240.0, need_exhaust=True))
    return out


def extra_evidence(tier: str) -> typing.Dict[str, typing.Any]:
    return {
        "bounds": {"revisions": REVISIONS, "containers": sorted(CONTAINERS),
                   "symbolic": "extent (layout), all integer leaves of the nested objects and the surrounding fields (wire)"},
        "outside": ["revisions that change or reorder existing fields (not an append/remove of trailing fields)",
                    "extents smaller than the longer revision (rejected by the constructor, see C05)"],
    }
