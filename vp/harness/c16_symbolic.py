"""
C16 - layout analysis is symbolic: cost does not grow with capacities or extents.
Real code driven: the type constructors and BitLengthSet queries (min / max / extent / fixed_length / byte alignment of
the type and of every field offset / equality) with a SYMBOLIC capacity or extent in [1, 2**63], under spies that
turn "work that grows with the capacity" into an assertion over the symbolic value:
  * every Operator.expand() raises (no numerical expansion may happen);
  * the name `range` seen by the bit-length-set and type modules is a spy asserting that its bound does not exceed a
    constant (a loop over the capacity makes that assertion falsifiable -> the solver returns a capacity);
  * `_symbolic.itertools` is a spy asserting repetition counts <= 2d - 1 and operand sizes <= d and counting tuples.
"""

from __future__ import annotations

import contextlib
import typing

from ..symx import Cond, pick
from .. import types as T, textio

PROP = "C16"

MAX_DIVISOR = 64
LOOP_LIMIT = 4 * MAX_DIVISOR  # any loop bound / repetition count above this depends on a capacity
TUPLE_LIMIT = 3000000  # sum_{k<=63} C(k+3, 3) = 766480 tuples is what == (divisor 32) legitimately costs for byte-multiple elements


class WorkGrows(Exception):
    pass


class _SpyIter:
    def __init__(self, real: typing.Any, log: typing.Dict[str, int]) -> None:
        self._real = real
        self._log = log

    def _count(self, it: typing.Iterable[typing.Any]) -> typing.Iterator[typing.Any]:
        for x in it:
            self._log["tuples"] += 1
            if self._log["tuples"] > TUPLE_LIMIT:
                raise WorkGrows("more than %d tuples enumerated" % TUPLE_LIMIT)
            yield x

    def product(self, *its: typing.Any) -> typing.Any:
        lists = [list(i) for i in its]
        total = 1
        for l in lists:
            if len(l) > MAX_DIVISOR:
                raise WorkGrows("product over an operand of %d residues" % len(l))
            total *= len(l)
        if total > MAX_DIVISOR ** 2:
            raise WorkGrows("a product of residue sets with %d combinations (pairwise aggregation bounds it by divisor**2)" % total)
        return self._count(self._real.product(*lists))

    def combinations_with_replacement(self, it: typing.Any, r: typing.Any) -> typing.Any:
        items = list(it)
        if len(items) > MAX_DIVISOR:
            raise WorkGrows("combinations over an operand of %d elements" % len(items))
        if r > 2 * MAX_DIVISOR - 1:
            raise WorkGrows("repetition count handed to the enumerator exceeds 2d - 1")
        return self._count(self._real.combinations_with_replacement(items, r))

    def __getattr__(self, name: str) -> typing.Any:
        return getattr(self._real, name)


def _spy_range(*args: typing.Any) -> typing.Any:
    stop = args[0] if len(args) == 1 else args[1]
    if stop > LOOP_LIMIT:
        raise WorkGrows("a loop runs over range(n) with n beyond %d: the bound depends on a capacity / extent" % LOOP_LIMIT)
    return range(*args)


@contextlib.contextmanager
def spies(log: typing.Dict[str, int]) -> typing.Iterator[None]:
    import itertools
    from pydsdl._bit_length_set import _symbolic, _bit_length_set
    from pydsdl._serializable import _array, _composite, _serializable, _primitive

    def forbidden(self: typing.Any) -> typing.Any:
        raise WorkGrows("numerical expansion of a bit length set (%s.expand)" % type(self).__name__)

    classes = [c for c in vars(_symbolic).values() if isinstance(c, type) and issubclass(c, _symbolic.Operator)
               and "expand" in vars(c) and c is not _symbolic.Operator and c is not _symbolic.NullaryOperator]
    saved = [(c, vars(c)["expand"]) for c in classes]
    mods = [_symbolic, _bit_length_set, _array, _composite, _serializable, _primitive]
    had_range = [(m, "range" in vars(m), vars(m).get("range")) for m in mods]
    real_it = _symbolic.itertools
    for c in classes:
        c.expand = forbidden  # type: ignore
    for m in mods:
        m.range = _spy_range  # type: ignore
    _symbolic.itertools = _SpyIter(itertools, log)  # type: ignore
    try:
        yield
    finally:
        _symbolic.itertools = real_it  # type: ignore
        for c, f in saved:
            c.expand = f  # type: ignore
        for m, had, val in had_range:
            if had:
                m.range = val  # type: ignore
            else:
                del m.range  # type: ignore


# shapes with one symbolic parameter "n" (capacity, or extent in bytes) and one ladder parameter "m"
SHAPES = {
    "varr-u8": ["struct", ["u8", ["varr", "u8", "n"], "u16"]],
    "varr-bool-then-composite": ["struct", [["varr", "bool", "n"], ["struct", ["u8"]], "u3"]],
    "farr-u8": ["struct", [["farr", "u8", "n"], ["varr", "u16", 3]]],
    "farr-u3": ["struct", ["bool", ["farr", "u3", "n"], "u8"]],
    "nested-varr": ["struct", [["varr", ["struct", ["u3", ["varr", "u8", "n"]]], "m"], "u8"]],
    "union": ["struct", [["union", [["varr", "u8", "n"], ["farr", "u16", "m"], "bool"]], "u8"]],
    "delimited": ["struct", ["u3", ["delim", ["struct", ["u8"]], "n8"], ["varr", ["delim", ["struct", ["u8"]], "n8"], "m"], "u8"]],
    "farr-composite": ["struct", [["farr", ["struct", ["u3", "u8"]], "n"], "u7"]],
    # element lengths {8, 24, 40, 56}: the residues mod 32 cycle ({8,24}, {0,16}, ...) and never saturate
    "farr-varcomposite": ["struct", [["farr", ["struct", [["varr", "u16", 3]]], "n"], "u8"]],
    "mixed": ["struct", [["varr", "u3", "n"], "u5", ["varr", ["struct", ["bool"]], "n"], ["farr", "u24", "m"]]],
    "many-subbyte": ["struct", [["varr", "bool", "n"], ["varr", "u3", "n"], ["varr", "u5", "m"], ["varr", "u7", "n"],
                                ["varr", "bool", "m"], ["varr", "u3", "m"], "u5"]],
}
LADDER = [2, 2 ** 8 - 1, 2 ** 8, 2 ** 16 + 1, 2 ** 32 - 1, 2 ** 32, 2 ** 40 + 7, 2 ** 63]


def _queries(t: typing.Any, t2: typing.Any, eq: bool = True) -> typing.Any:
    b = t.bit_length_set
    _ = (b.min, b.max, t.extent, b.fixed_length, b.is_aligned_at_byte())
    for _f, off in t.iterate_fields_with_offsets():
        _ = off.is_aligned_at_byte()
        _ = (off.min, off.max)
    if eq and not b == t2.bit_length_set:
        return "two types built from the same description have unequal bit length sets"
    for f in t.fields:
        _ = f.data_type.bit_length_set.is_aligned_at_byte()
        _ = f.data_type.alignment_requirement
    return True


def make_work(shape: str, m: int, r: int):
    spec = SHAPES[shape]

    def h(q: int) -> typing.Any:
        n = 32 * q + r  # the residue class mod 32 is scaffolding (the code branches on n % divisor), q is symbolic
        if not (q >= 0 and 1 <= n <= 2 ** 63 - 1):
            return None
        params = {"n": n, "m": m, "n8": 8 * n}
        log = {"tuples": 0}
        try:
            with spies(log):
                t = T.build(spec, params)
                t2 = T.build(spec, params)
                # == (divisor 32) legitimately enumerates ~10**6 tuples for huge arrays of variable composites: too slow
                # under the tracer, exercised natively in c16.ladder instead
                res = _queries(t, t2, eq=shape not in ("nested-varr", "delimited"))
        except WorkGrows as ex:
            return "work depends on the capacity: %s" % ex
        return res

    return h


def make_ladder(shape: str):
    """
    Concrete capacities 2 .. 2**63 (native): type-level == / hash / str under the same spies; the number of tuples
    enumerated must be the same for every capacity >= 2**8 (it may only depend on the residues, not the magnitude).
    """
    spec = SHAPES[shape]

    def concrete() -> typing.Any:
        counts = []
        for n in LADDER:
            for m in (3, 2 ** 20 + 1):
                params = {"n": n, "m": m, "n8": 8 * n}
                log = {"tuples": 0}
                try:
                    with spies(log):
                        t = T.build(spec, params)
                        t2 = T.build(spec, params)
                        r = _queries(t, t2)
                        if r is not True:
                            return r
                        _ = (hash(t), hash(t.bit_length_set), str(t), repr(t.fields))
                        for f in t.fields:
                            if not (f.data_type == f.data_type) or hash(f.data_type) != hash(f.data_type):
                                return "type equality / hash"
                except WorkGrows as ex:
                    return "capacity %d: %s" % (n, ex)
                counts.append((n, m, log["tuples"]))
        for mm in (3, 2 ** 20 + 1):
            cs = [c for n, m, c in counts if m == mm and n >= 2 ** 8]
            if max(cs) > 2 * min(cs) + 1000:
                return "tuples enumerated grow with the capacity: %s" % counts
        return True

    def h(dummy: int) -> typing.Any:
        if dummy != 0:
            return None
        return textio.native(concrete)

    return h


def make_text(shape: str, r: int):
    """The same through the reader: a definition with capacity `a` (identifier) is read and queried under the spies."""
    texts = {
        "varr": "uint8 x\nuint16[<=a] y\nbool[<a] z\nuint8 w\n@sealed\n",
        "farr": "bool b\nuint8[a] y\nuint3[a] z\n@extent a * 64\n",
        "union": "@union\nuint8[<=a] y\nuint64[a] z\nbool[<=a] q\n@sealed\n",
    }
    text = texts[shape]

    def h(q: int) -> typing.Any:
        import pydsdl
        from pydsdl import _expression as E

        n = 32 * q + r
        if not (q >= 0 and 2 <= n <= 2 ** 56):
            return None
        log = {"tuples": 0}
        try:
            with spies(log):
                t, _ = textio.read_text(text, {"a": E.Rational(n)})
                t2, _ = textio.read_text(text, {"a": E.Rational(n)})
                res = _queries(t, t2)
        except WorkGrows as ex:
            return "work depends on the capacity: %s" % ex
        except pydsdl.InvalidDefinitionError as ex:
            return "rejected: %s" % type(ex).__name__
        return res

    return h


def conditions(tier: str, seed: int) -> typing.List[Cond]:
    import random

    rnd = random.Random(seed)
    thorough = tier == "thorough"
    out = []  # type: typing.List[Cond]
    for shape in SHAPES:
        ms = [3, LADDER[3], LADDER[5], LADDER[7]] if thorough else [3, rnd.choice(LADDER[3:])]
        for m in ms:
            if "'m'" not in repr(SHAPES[shape]) and m != ms[0]:
                continue
            for r in ([0, 1, 5, 8, 13, 16, 24, 31] if thorough else rnd.sample(range(32), 2)):
                out.append(Cond(PROP, "c16.work", make_work, {"shape": shape, "m": m, "r": r}, {"q": int},
                            assumptions=["capacity (or extent in bytes) n = 32*q + %d: every such integer in [1, 2**63 - 1]; "
                                         "second capacity m = %d" % (r, m)],
                            stubs=["Operator.expand raises", "`range` in the bit-length-set / type modules asserts bound <= %d" % LOOP_LIMIT,
                                   "_symbolic.itertools asserts counts <= 2d-1, operands <= d (d = 64) and counts tuples"],
                            witness={"q": 2 ** 35 + 5}, budget=300.0, need_exhaust=True, fmtstub=True))
        out.append(Cond(PROP, "c16.ladder", make_ladder, {"shape": shape}, {"dummy": int}, kind="choice",
                        assumptions=["capacities %s x m in {3, 2**20 + 1}: ==, hash, str of types; tuple counts" % LADDER],
                        stubs=["same spies"], witness={"dummy": 0}, budget=300.0, need_exhaust=True))
    for shape in ("varr", "farr", "union"):
        for r in (range(0, 32, 3) if thorough else [rnd.randrange(32)]):
            out.append(Cond(PROP, "c16.text", make_text, {"shape": shape, "r": r}, {"q": int},
                            assumptions=["capacity a = 32*q + %d in [2, 2**56] through the reader" % r],
                            stubs=["same spies", "identifier injection"],
                            witness={"q": 2 ** 33}, budget=300.0, need_exhaust=True, fmtstub=True))
    return out


def extra_evidence(tier: str) -> typing.Dict[str, typing.Any]:
    return {
        "bounds": {"shapes": sorted(SHAPES), "symbolic": "one capacity / extent per condition in [1, 2**63 - 1]",
                   "ladder": LADDER, "limits": {"loop bound": LOOP_LIMIT, "tuples": TUPLE_LIMIT, "divisor": MAX_DIVISOR}},
        "outside": ["wall-clock time itself (the claim is that no loop bound, repetition count or enumerated operand depends "
                    "on the symbolic capacity)", "type-level == / hash with a symbolic capacity (str() realises it): ladder"],
    }


_ = pick
