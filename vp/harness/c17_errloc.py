"""
C17 - errors and @print output are attributed to the right file and line.
Real code driven: _parser.parse (line counter, location injection), Error.set_error_location_if_unknown,
DSDLDefinition.read, DataTypeBuilder (directives, lazy attribute commit), _namespace_reader.read_definitions (handler
binding, recursion into dependencies) - on in-memory definitions (vp.textio.MemDefinition: the real DSDLDefinition
minus the file system).
"""

from __future__ import annotations

import typing

from ..symx import Cond, pick
from .. import textio

PROP = "C17"

# kinds of lines that may surround the statement of interest (none of them faulty)
SURROUND = [
    "",
    "# a comment",
    "uint8 p%d",
    "@assert true",
    "uint16 q%d # trailing comment",
    "  \t ",
    "uint8 K%d = 1 + 1",
    "void3",
    "@assert 'two\nlines' != ''  # a statement continued over two lines",
    "# form feed \x0c, vertical tab \x0b, NEL \x85, separators \u2028 \u2029 \x1c\x1d\x1e in a comment are not line breaks",
]

# (name, statement, needs-line): needs-line False = the fault surfaces when the composite is constructed (no statement
# is being processed then), the line may be absent - but never wrong.
FAULTS = [
    ("syntax", "uint8 &x", True),
    ("syntax-expr", "@assert 1 +", True),
    ("undefined-type", "ns.Missing.1.0 m", True),
    ("undefined-version", "ns.Leaf.1.7 m", True),
    ("assert-false", "@assert 1 == 2", True),
    ("assert-nonbool", "@assert 1", True),
    ("const-range", "uint8 BAD = 1000", True),
    ("const-kind", "bool BAD = 1", True),
    ("const-frac", "uint8 BAD = 1/2", True),
    ("const-string", "uint8 BAD = 'ab'", True),
    ("const-composite", "ns.Leaf.1.0 BAD = 1", True),
    ("unknown-directive", "@frobnicate", True),
    ("directive-arg", "@deprecated 1", True),
    ("sealed-arg", "@sealed 1", True),
    ("capacity-zero", "uint8[0] bad", True),
    ("capacity-frac", "uint8[1/2] bad", True),
    ("capacity-huge", "bool[<=2**64] bad", True),
    ("width-65", "uint65 bad", True),
    ("width-int1", "int1 bad", True),
    ("width-float", "float17 bad", True),
    ("truncated-signed", "truncated int8 bad", True),
    ("undefined-ident", "@assert nothing == 1", True),
    ("div-zero", "@print 1/0", True),
    ("undef-operator", "@print 1 + true", True),
    ("root-of-negative", "@print (-8) ** (1/3)", True),
    ("bad-name", "uint8 _bad_", True),
    ("reserved-name", "uint8 float32", True),
    ("named-void", "void8 named", True),
    ("extent-frac", "@extent 1/2", True),
    ("extent-string", "@extent 'a'", True),
    ("bad-escape", "@print '\\z'", True),
    ("hetero-set", "@print {1, true}", True),
    ("undef-attribute", "@assert {1}.nothing", True),
    ("assert-multiline", "@assert 'x\ny' == 'xy'", True),
    ("operand-multiline", "@print 'p\nq\nr' + 1", True),
    ("byte-scalar", "byte b", False),
    ("utf8-fixed", "utf8[4] s", False),
]

LEAF = ("ns.Leaf", (1, 0), "uint8 v\n@sealed\n")


def _surround_lines(kinds: typing.Sequence[int], tag: int) -> typing.List[str]:
    out = []
    for i, k in enumerate(kinds):
        s = SURROUND[k]
        out.append(s % (tag * 10 + i) if "%d" in s else s)
    return out


def _join(lines: typing.Sequence[str], crlf: bool, final_newline: bool) -> str:
    eol = "\r\n" if crlf else "\n"
    return eol.join(lines) + (eol if final_newline else "")


def _build(location: str, body: typing.Sequence[str], crlf: bool, final_newline: bool) -> typing.Tuple[typing.List[typing.Any], typing.Any]:
    """
    Returns (all definitions, the definition containing `body`).  Target is ns.T; with location dep1 / dep2 the body
    lives in ns.D1 / ns.D2 reached through T (-> D1 (-> D2)).
    """
    leaf = textio.MemDefinition(*LEAF)
    if location == "target":
        t = textio.MemDefinition("ns.T", (1, 0), _join(body, crlf, final_newline))
        return [t, leaf], t
    if location == "dep1":
        d1 = textio.MemDefinition("ns.D1", (1, 0), _join(body, crlf, final_newline))
        t = textio.MemDefinition("ns.T", (1, 0), "# one\n# two\n\nuint8 first\nns.D1.1.0 d\n@sealed\n")
        return [t, d1, leaf], d1
    d2 = textio.MemDefinition("ns.D2", (1, 0), _join(body, crlf, final_newline))
    d1 = textio.MemDefinition("ns.D1", (1, 0), "# c\nuint8 z\nns.D2.1.0 e\n@sealed\n")
    t = textio.MemDefinition("ns.T", (1, 0), "# one\n# two\n\nuint8 first\nns.D1.1.0 d\n@sealed\n")
    return [t, d1, d2, leaf], d2


def _read(defs: typing.List[typing.Any], prints: typing.List[typing.Any],
          env: typing.Optional[typing.Mapping[str, typing.Any]] = None) -> typing.Any:
    from pydsdl import _namespace_reader as NR

    def handler(path: typing.Any, line: int, text: str) -> None:
        prints.append((path, line, text))

    with textio.symbolic_env(env or {}), textio.native_grammar():
        return NR.read_definitions([defs[0]], list(defs), handler, True)


def _lines_before(body: typing.Sequence[str], index: int) -> int:
    return sum(s.count("\n") + 1 for s in body[:index])


def _check_fault(location: str, body: typing.List[str], fault_index: int, crlf: bool, final_newline: bool,
                 needs_line: bool, env: typing.Optional[typing.Mapping[str, typing.Any]] = None) -> typing.Any:
    import pydsdl

    fault_index = _lines_before(body, fault_index)

    defs, culprit = _build(location, body, crlf, final_newline)
    prints = []  # type: typing.List[typing.Any]
    try:
        _read(defs, prints, env)
    except pydsdl.InvalidDefinitionError as ex:
        if ex.path is None:
            return "error without a path (%s)" % type(ex).__name__
        if ex.path != culprit.file_path:
            return "error attributed to %s, the fault is in %s" % (ex.path.name, culprit.file_path.name)
        want = fault_index + 1
        if ex.line is None:
            if needs_line:
                return "no line reported for a faulty statement on line %d (%s)" % (want, type(ex).__name__)
        elif ex.line != want:
            return "error reported on line %s, the faulty statement is on line %d (%s)" % (ex.line, want, type(ex).__name__)
        return True
    return "definition with a fault was accepted"


# ------------------------------------------------------------------------------------------------------------------
# c17.line - every fault category x surrounding lines (choice-exhaustive, concrete text, real code run natively)


def make_line(fault: str, location: str, crlf: bool, final_newline: bool, max_pre: int, max_post: int):
    stmt, needs_line = [(s, n) for (f, s, n) in FAULTS if f == fault][0]
    nk = len(SURROUND)

    def concrete(pre: typing.List[int], post: typing.List[int]) -> typing.Any:
        body = _surround_lines(pre, 1) + [stmt] + _surround_lines(post, 2) + ["@sealed"]
        return _check_fault(location, body, len(pre), crlf, final_newline, needs_line)

    def h(n_pre: int, n_post: int, k0: int, k1: int, k2: int, k3: int) -> typing.Any:
        a = pick(n_pre, 0, max_pre)
        b = pick(n_post, 0, max_post)
        if a is None or b is None:
            return None
        ks = []
        for k in (k0, k1, k2, k3)[: a + b]:
            c = pick(k, 0, nk - 1)
            if c is None:
                return None
            ks.append(c)
        for k in (k0, k1, k2, k3)[a + b:]:
            if k != 0:
                return None
        return textio.native(concrete, ks[:a], ks[a:])

    return h


# ------------------------------------------------------------------------------------------------------------------
# c17.sym - the faulty VALUE is symbolic: the location must be right for every value that makes the statement faulty

SYM_FAULTS = {
    # name: (statement using identifiers a/b, predicate text, predicate)
    "const-above": ("uint8 BAD = a", "a > 255", lambda a, b: a > 255),
    "const-below": ("int8 BAD = a", "a < -128", lambda a, b: a < -128),
    "const-trunc": ("truncated uint16 BAD = a + b", "a + b > 65535", lambda a, b: a + b > 65535),
    "capacity": ("uint8[a] bad", "a <= 0", lambda a, b: a <= 0),
    "capacity-incl": ("uint8[<=a] bad", "a <= 0", lambda a, b: a <= 0),
    "capacity-excl": ("uint8[<a] bad", "a <= 1", lambda a, b: a <= 1),
    "assert-eq": ("@assert a == b", "a != b", lambda a, b: a != b),
    "assert-lt": ("@assert a * 2 < b", "2a >= b", lambda a, b: a * 2 >= b),
    "div": ("@print a / (b - b)", "any a, b", lambda a, b: True),
    "mod": ("@assert a % (b * 0) == 0", "any a, b", lambda a, b: True),
}


def make_sym(fault: str, location: str, pre: typing.List[int], post: typing.List[int], crlf: bool, final_newline: bool):
    stmt, _, pred = SYM_FAULTS[fault]
    body = _surround_lines(pre, 1) + [stmt] + _surround_lines(post, 2) + ["@sealed"]

    def h(a: int, b: int) -> typing.Any:
        from pydsdl import _expression as E

        if not pred(a, b):
            return None
        return _check_fault(location, body, len(pre), crlf, final_newline, True, {"a": E.Rational(a), "b": E.Rational(b)})

    return h


# ------------------------------------------------------------------------------------------------------------------
# c17.print - @print with a symbolic value at every position, in the target and in dependencies


def _check_print(location: str, body: typing.List[str], want: typing.List[typing.Tuple[int, str]], crlf: bool,
                 final_newline: bool, env: typing.Optional[typing.Mapping[str, typing.Any]] = None) -> typing.Any:
    defs, home = _build(location, body, crlf, final_newline)
    prints = []  # type: typing.List[typing.Any]
    _read(defs, prints, env)
    if len(prints) != len(want):
        return "%d print deliveries for %d directives" % (len(prints), len(want))
    problems = []  # type: typing.List[str]
    for (path, line, text), (wl, wt) in zip(prints, want):
        if path != home.file_path:
            who = "referrer" if path == defs[0].file_path else "another file"
            p = "print path is %s (the %s), the directive is in %s" % (path.name, who, home.file_path.name)
            if p not in problems:
                problems.append(p)
        if line != wl:
            problems.append("print reported on line %s, the directive is on line %d" % (line, wl))
        if text != wt:
            problems.append("print text %r, want %r" % (text, wt))
    return "; ".join(problems) if problems else True


def make_print(location: str, crlf: bool, final_newline: bool, pre: typing.List[int], mid: typing.List[int]):
    pre_l = _surround_lines(pre, 1)
    mid_l = _surround_lines(mid, 2)
    body = pre_l + ["@print a"] + mid_l + ["@print a + 1  # second", "@sealed"]

    def h(a: int) -> typing.Any:
        from pydsdl import _expression as E

        if not -3 <= a <= 12:
            return None
        n1 = _lines_before(pre_l, len(pre_l))
        want = [(n1 + 1, str(a)), (n1 + 1 + _lines_before(mid_l, len(mid_l)) + 1, str(a + 1))]
        return _check_print(location, body, want, crlf, final_newline, {"a": E.Rational(a)})

    return h


def make_print_concrete(location: str, crlf: bool, final_newline: bool, max_pre: int):
    """All-concrete twin of make_print run natively: more surroundings, string/set/bool values."""
    nk = len(SURROUND)
    values = [("'two\nlines'", "'two\\nlines'"), ("true", "true"), ("'x' + \"y\"", "'xy'"), ("{1, 2/4}.count", "2"), ("3/6", "1/2"), ("", "")]

    def concrete(pre_k: typing.List[int], v: int) -> typing.Any:
        pre = _surround_lines(pre_k, 1)
        expr, shown = values[v]
        body = pre + [("@print " + expr).rstrip(), "uint8 after", "@print _offset_", "@sealed"]
        # surrounding attribute lines contribute to _offset_: recompute from the kinds
        bits = 8
        for k in pre_k:
            bits += {2: 8, 4: 16, 7: 3}.get(k, 0)
        n1 = _lines_before(pre, len(pre))
        want = [(n1 + 1, shown), (n1 + 3 + expr.count("\n"), "{%d}" % bits)]
        return _check_print(location, body, want, crlf, final_newline)

    def h(n_pre: int, v: int, k0: int, k1: int, k2: int) -> typing.Any:
        np_ = pick(n_pre, 0, max_pre)
        vv = pick(v, 0, len(values) - 1)
        if np_ is None or vv is None:
            return None
        ks = []
        for k in (k0, k1, k2)[:np_]:
            c = pick(k, 0, nk - 1)
            if c is None:
                return None
            ks.append(c)
        for k in (k0, k1, k2)[np_:]:
            if k != 0:
                return None
        return textio.native(concrete, ks, vv)

    return h


# ------------------------------------------------------------------------------------------------------------------
# c17.loc - Error.set_error_location_if_unknown: the innermost known location wins (symbolic lines)


def make_loc(has_path0: bool, has_path1: bool, has_path2: bool):
    from pathlib import Path

    paths = [Path("/x/inner.dsdl"), Path("/x/middle.dsdl"), Path("/x/outer.dsdl")]

    def h(l0: int, l1: int, l2: int, h0: bool, h1: bool, h2: bool) -> typing.Any:
        from pydsdl import _error

        if not (l0 >= 1 and l1 >= 1 and l2 >= 1):
            return None
        ex = _error.InvalidDefinitionError("boom", path=paths[0] if has_path0 else None, line=l0 if h0 else None)
        ex.set_error_location_if_unknown(path=paths[1] if has_path1 else None, line=l1 if h1 else None)
        ex.set_error_location_if_unknown(path=paths[2] if has_path2 else None, line=l2 if h2 else None)
        want_path = paths[0] if has_path0 else paths[1] if has_path1 else paths[2] if has_path2 else None
        want_line = l0 if h0 else l1 if h1 else l2 if h2 else None
        if ex.path != want_path:
            return "path %s, want %s" % (ex.path, want_path)
        if want_line is None:
            if ex.line is not None:
                return "line appeared from nowhere"
        elif ex.line is None or ex.line != want_line:
            return "line is not the innermost known one"
        return True

    return h


def make_disk(eol: str):
    """
    The same through real files (DSDLDefinition.text reads them): line terminators LF, CRLF and lone CR - Python's text
    mode treats all three as line breaks, so does the reported line.
    """
    from .. import model

    term = {"lf": "\n", "crlf": "\r\n", "cr": "\r"}[eol]

    def concrete(k: int, fault: int) -> typing.Any:
        import pydsdl

        stmt = ["@assert false", "uint8 BAD = 1000", "uint8[0] bad", "@frobnicate"][fault]
        lines = ["# c"] * k + [stmt, "uint8 after", "@sealed"]
        root = model.scratch_dir("c17d").resolve()
        (root / "ns").mkdir()
        with open(root / "ns" / "T.1.0.dsdl", "wb") as f:
            f.write(term.join(lines).encode() + term.encode())
        with open(root / "ns" / "P.1.0.dsdl", "wb") as f:
            f.write(term.join(["# c"] * k + ["@print 7", "@sealed"]).encode())
        prints = []  # type: typing.List[typing.Any]
        try:
            pydsdl.read_files([root / "ns" / "P.1.0.dsdl"], [root / "ns"], [], lambda p, l, t: prints.append((p.name, l, t)))
        except pydsdl.InvalidDefinitionError as ex:
            return "valid definition with %s line endings rejected: %s" % (eol, type(ex).__name__)
        if prints != [("P.1.0.dsdl", k + 1, "7")]:
            return "print with %s line endings delivered as %r, want line %d" % (eol, prints, k + 1)
        try:
            pydsdl.read_files([root / "ns" / "T.1.0.dsdl"], [root / "ns"], [])
        except pydsdl.InvalidDefinitionError as ex:
            if ex.line != k + 1 or ex.path is None or ex.path.name != "T.1.0.dsdl":
                return "fault on line %d of a file with %s line endings reported at %s:%s (%s)" % (k + 1, eol, ex.path and ex.path.name, ex.line, type(ex).__name__)
            return True
        return "faulty definition accepted"

    def h(k: int, fault: int) -> typing.Any:
        a, b = pick(k, 0, 3), pick(fault, 0, 3)
        if a is None or b is None:
            return None
        return textio.native(concrete, a, b)

    return h


# ------------------------------------------------------------------------------------------------------------------


def key_c17(scaffold: typing.Dict[str, typing.Any], args: typing.Dict[str, typing.Any], detail: str) -> str:
    if detail.startswith("print path is") and detail.endswith(".dsdl") and ";" not in detail and \
            "(the referrer)" in detail and scaffold.get("location") in ("dep1", "dep2"):
        return "C17:print-in-dependency-delivered-with-referrer-path"
    return "C17:%s" % detail[:40]


def conditions(tier: str, seed: int) -> typing.List[Cond]:
    import random

    rnd = random.Random(seed)
    out = []  # type: typing.List[Cond]
    thorough = tier == "thorough"
    locs = ["target", "dep1", "dep2"]
    # c17.loc
    for hp in range(8):
        out.append(Cond(PROP, "c17.loc", make_loc,
                        {"has_path0": bool(hp & 1), "has_path1": bool(hp & 2), "has_path2": bool(hp & 4)},
                        {"l0": int, "l1": int, "l2": int, "h0": bool, "h1": bool, "h2": bool},
                        assumptions=["lines l0, l1, l2 >= 1 (unbounded); presence of each line/path: both"],
                        witness={"l0": 3, "l1": 5, "l2": 9, "h0": False, "h1": True, "h2": True}, budget=60.0,
                        need_exhaust=True))
    # c17.line
    all_fmts = [(False, True), (True, True), (False, False), (True, False)]
    for fault, _stmt, _nl in FAULTS:
        for loc in locs:
            if thorough:
                fmts = all_fmts if loc == "target" else rnd.sample(all_fmts, 2)
                sizes = [(2, 1), (3, 0)] if loc == "target" else [(2, 1)]
            else:
                fmts = [rnd.choice(all_fmts)]
                sizes = [(1, 1), (2, 0)]
            for crlf, fnl in fmts:
                for max_pre, max_post in sizes:
                    out.append(Cond(PROP, "c17.line", make_line,
                                    {"fault": fault, "location": loc, "crlf": crlf, "final_newline": fnl,
                                     "max_pre": max_pre, "max_post": max_post},
                                    {"n_pre": int, "n_post": int, "k0": int, "k1": int, "k2": int, "k3": int},
                                    kind="choice",
                                    assumptions=["0..%d preceding and 0..%d following lines, each one of %d kinds (blank, "
                                                 "comment, field, directive, field with trailing comment, blanks only, "
                                                 "constant, padding)" % (max_pre, max_post, len(SURROUND))],
                                    witness={"n_pre": 1, "n_post": 0, "k0": 1, "k1": 0, "k2": 0, "k3": 0}, budget=900.0,
                                    need_exhaust=True))
    # c17.sym
    surr = [([], []), ([0], [0]), ([1, 2], [4]), ([6, 0, 0], []), ([4, 1], [0, 0])]
    for fault in SYM_FAULTS:
        for loc in locs:
            picks = surr if thorough else [surr[0], rnd.choice(surr[1:])]
            for pre, post in picks:
                crlf = rnd.random() < 0.5
                fnl = rnd.random() < 0.7
                out.append(Cond(PROP, "c17.sym", make_sym,
                                {"fault": fault, "location": loc, "pre": pre, "post": post, "crlf": crlf,
                                 "final_newline": fnl},
                                {"a": int, "b": int},
                                assumptions=["a, b: unbounded integers with %s" % SYM_FAULTS[fault][1]], fmtstub=True,
                                witness={"a": 70000, "b": -5} if fault not in ("const-below", "capacity", "capacity-incl",
                                                                                "capacity-excl") else {"a": -70000, "b": 3},
                                budget=120.0, need_exhaust=True))
    for eol in ("lf", "crlf", "cr"):
        out.append(Cond(PROP, "c17.disk", make_disk, {"eol": eol}, {"k": int, "fault": int}, kind="choice",
                        assumptions=["real files with %s line terminators: 4 faults / a @print after 0..3 comment lines" % eol],
                        witness={"k": 2, "fault": 0}, budget=120.0, need_exhaust=True))
    # c17.print
    for loc in locs:
        for crlf, fnl in ([(False, True), (True, False)] if not thorough else
                          [(False, True), (True, True), (False, False), (True, False)]):
            for pre, mid in ([([], []), ([1, 2], [0])] if not thorough else surr):
                out.append(Cond(PROP, "c17.print", make_print,
                                {"location": loc, "crlf": crlf, "final_newline": fnl, "pre": pre, "mid": mid},
                                {"a": int},
                                assumptions=["printed value a: every integer in [-3, 12] (str() of a symbolic integer is enumerated by the engine)"],
                                witness={"a": -2}, budget=300.0, key="key_c17", need_exhaust=False))
            out.append(Cond(PROP, "c17.print-values", make_print_concrete,
                            {"location": loc, "crlf": crlf, "final_newline": fnl, "max_pre": 3 if thorough else 2},
                            {"n_pre": int, "v": int, "k0": int, "k1": int, "k2": int}, kind="choice",
                            assumptions=["0..%d preceding lines; printed value one of bool/string/set attribute/fraction/none"
                                         % (3 if thorough else 2)],
                            witness={"n_pre": 2, "v": 1, "k0": 2, "k1": 4, "k2": 0}, budget=240.0, key="key_c17",
                            need_exhaust=True))
    return out


def extra_evidence(tier: str) -> typing.Dict[str, typing.Any]:
    return {
        "bounds": {"fault categories": [f for f, _, _ in FAULTS], "symbolic faults": sorted(SYM_FAULTS),
                   "locations": "target, dependency (depth 1), dependency of a dependency (depth 2)",
                   "surroundings": "up to 3 preceding / 1 following lines of 8 kinds, LF and CRLF, with and without final "
                                   "newline"},
        "outside": ["faults that have no statement (missing @sealed, duplicate attribute names, union arity): path only",
                    "on-disk namespaces (the reader is driven on in-memory definitions; the handler binding in "
                    "_namespace_reader is the real one)"],
    }
