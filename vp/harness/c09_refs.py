"""
C09 - versioned references resolve to exactly the named definition or fail cleanly.
Real code driven: DataTypeBuilder.resolve_versioned_data_type (name completion, case-insensitive match, version filter,
collision detection) with a SYMBOLIC version; DSDLDefinition.read (self exclusion, recursion, caching) and
_namespace_reader.read_definitions on dependency graphs over in-memory definitions.
"""

from __future__ import annotations

import itertools
import typing

from ..symx import Cond, pick
from .. import textio, model

PROP = "C09"

# ------------------------------------------------------------------------------------------------------------------
# c09.filter

LOOKUP = [
    ("ns.Dep", (1, 0), "uint8 a\n@sealed\n"),
    ("ns.Dep", (1, 1), "uint16 a\n@sealed\n"),
    ("ns.Dep", (2, 0), "uint32 a\n@sealed\n"),
    ("ns.sub.Dep", (1, 0), "bool a\n@sealed\n"),
    ("ns.sub.Dep", (1, 7), "bool b\n@sealed\n"),
    ("other.Dep", (1, 0), "int8 a\n@sealed\n"),
    ("other.Dep", (255, 255), "int8 z\n@sealed\n"),
    ("ns.Other", (1, 0), "float16 a\n@sealed\n"),
    ("ns.Zero", (0, 1), "float32 a\n@sealed\n"),
]
NAMES = ["Dep", "ns.Dep", "ns.sub.Dep", "other.Dep", "sub.Dep", "ns.dep", "NS.Dep", "dep", "ns.Missing", "Other", "OTHER",
         "other.dep", "Zero", "ns.Sub.Dep"]


def _expected(name: str, referrer_ns: str, M: typing.Any, m: typing.Any) -> typing.Tuple[str, typing.Any]:
    full = name if "." in name else referrer_ns + "." + name
    for ln, lv, _ in LOOKUP:
        if ln.lower() == full.lower() and lv[0] == M and lv[1] == m:
            if ln != full:
                return "case", None
            return "ok", (ln, lv)
    return "undefined", None


def make_filter(referrer: str, i1: int, i2: int):
    """Two consecutive resolutions on ONE builder (state kept between them must not matter)."""
    n1, n2 = NAMES[i1], NAMES[i2]
    ref_ns = referrer.rsplit(".", 1)[0]

    def h(M1: int, m1: int, M2: int, m2: int) -> typing.Any:
        import pydsdl
        from pydsdl import _data_type_builder as B

        if not (0 <= M1 <= 255 and 0 <= m1 <= 255 and 0 <= M2 <= 255 and 0 <= m2 <= 255):
            return None
        lookups = [textio.MemDefinition(*x) for x in LOOKUP]
        me = textio.MemDefinition(referrer, (1, 0), "@sealed\n")
        builder = B.DataTypeBuilder(me, lookups, [], lambda *_: None, True)
        for name, M, m in ((n1, M1, m1), (n2, M2, m2)):
            kind, key = _expected(name, ref_ns, M, m)
            try:
                t = builder.resolve_versioned_data_type(name, pydsdl.Version(M, m))
                got = "ok"
            except B.DataTypeNameCollisionError:
                got, t = "case", None
            except B.UndefinedDataTypeError:
                got, t = "undefined", None
            except pydsdl.InvalidDefinitionError as ex:
                got, t = type(ex).__name__, None
            if got != kind:
                return "reference %s.%s.%s from %s: %s, want %s" % (name, M, m, referrer, got, kind)
            if kind == "ok":
                if t.full_name != key[0] or t.version.major != key[1][0] or t.version.minor != key[1][1]:
                    return "reference %s resolved to %s.%s.%s" % (name, t.full_name, t.version.major, t.version.minor)
                alone = textio.MemDefinition(*[x for x in LOOKUP if (x[0], x[1]) == key][0]).read([], [], lambda *_: None, True)
                if model.summary(alone) != model.summary(t):
                    return "resolved type differs from reading that definition on its own"
        return True

    return h


# ------------------------------------------------------------------------------------------------------------------
# c09.graph

NODES = [("ns.A", (1, 0)), ("ns.B", (1, 0)), ("ns.C", (1, 0)), ("ns.C", (1, 1))]
# edge bits: (from index, to index)
EDGES = [(0, 1), (0, 2), (1, 2), (2, 0), (1, 1), (2, 1), (0, 3), (1, 3)]


def _oracle(graph: typing.Dict[int, typing.List[int]], lookup: typing.List[int], targets: typing.List[int]) -> bool:
    cache = set()  # type: typing.Set[int]

    def key(i: int) -> typing.Any:
        return NODES[i % 10]  # index 10 + i is a second copy of node i (same name and version, another directory)

    def read(i: int, lk: typing.List[int]) -> bool:
        if i in cache:
            return True
        mine = [k for k in lk if key(k) != key(i)]
        for ref in graph[i % 10]:
            found = [k for k in mine if key(k) == key(ref)]
            if len(found) != 1:
                return False
            if not read(found[0], mine):
                return False
        cache.add(i)
        return True

    for t in targets:
        if not read(t, lookup):
            return False
    return True


def _texts(graph: typing.Dict[int, typing.List[int]], relative: bool) -> typing.Dict[int, str]:
    out = {}
    for i, (name, ver) in enumerate(NODES):
        lines = []
        for k, ref in enumerate(graph[i]):
            rn, rv = NODES[ref]
            shown = rn.split(".")[-1] if relative else rn
            lines.append("%s.%d.%d r%d" % (shown, rv[0], rv[1], k))
        lines += ["uint%d own" % (8 * (i + 1)), "@sealed"]
        out[i] = "\n".join(lines) + "\n"
    return out


def make_graph(relative: bool, dup: int, orders: typing.List[typing.List[int]], dup_same_root: bool = False):
    """
    dup: -1 = none, otherwise the node index that has a second copy (same name/version): in another directory, or - with
    dup_same_root - in the same root directory under another file name (with a fixed port-ID).
    """
    nbits = len(EDGES)

    def concrete(bits: int, oi: int) -> typing.Any:
        import pydsdl
        from pydsdl import _namespace_reader as NR

        graph = {i: [] for i in range(len(NODES))}  # type: typing.Dict[int, typing.List[int]]
        for b, (u, v) in enumerate(EDGES):
            if (bits >> b) & 1:
                graph[u].append(v)
        texts = _texts(graph, relative)

        def fresh() -> typing.Dict[int, typing.Any]:
            d = {i: textio.MemDefinition(NODES[i][0], NODES[i][1], texts[i]) for i in range(len(NODES))}
            if dup >= 0:
                # the namesake in the other directory is an innocent definition without references: resolving a cycle
                # or a self reference through it would "succeed"
                if dup_same_root:
                    d[10 + dup] = textio.MemDefinition(NODES[dup][0], NODES[dup][1], "uint64 unrelated\n@sealed\n", 7001)
                else:
                    d[10 + dup] = textio.MemDefinition(NODES[dup][0], NODES[dup][1], "uint64 unrelated\n@sealed\n", root="/verif-mem-other")
            return d

        defs = fresh()
        order = orders[oi]
        lookup_ids = sorted(defs)
        want = _oracle(graph, lookup_ids, order)
        try:
            res = NR.read_definitions([defs[i] for i in order], [defs[i] for i in lookup_ids], None, True)
            got = True
        except pydsdl.InvalidDefinitionError:
            got, res = False, None
        except RecursionError:
            return "unbounded recursion on graph %s, targets %s" % (graph, order)
        if got != want:
            return "graph %s (dup %s), targets %s: %s, want %s" % (
                graph, dup, order, "accepted" if got else "rejected", "accepted" if want else "rejected")
        if not got:
            return True
        by_key = {}
        for t in list(res.direct) + list(res.transitive):
            by_key[(t.full_name, (t.version.major, t.version.minor))] = t
        if sorted(by_key) != sorted({NODES[i] for i in _closure(graph, order)}):
            return "direct + transitive is not the closure of the targets: %s" % sorted(by_key)
        # nested types equal what reading that definition on its own yields
        for (name, ver), t in by_key.items():
            i = NODES.index((name, ver))
            alone_defs = fresh()
            alone = NR.read_definitions([alone_defs[i]], [alone_defs[k] for k in sorted(alone_defs)], None, True).direct[0]
            if model.summary(alone) != model.summary(t):
                return "%s read through this graph differs from reading it on its own" % name
            for f, ref in zip(t.fields, graph[i]):
                if f.data_type is not by_key[NODES[ref]]:
                    if model.summary(f.data_type) != model.summary(by_key[NODES[ref]]):
                        return "field %s of %s is not the referenced definition" % (f.name, name)
        # reading again returns the identical object
        for i in order:
            again = defs[i].read([defs[k] for k in lookup_ids], [], lambda *_: None, True)
            if again is not by_key[NODES[i]]:
                return "second read of %s returned another object" % NODES[i][0]
        return True

    def h(bits: int, oi: int) -> typing.Any:
        a, b = pick(bits, 0, 2 ** nbits - 1), pick(oi, 0, len(orders) - 1)
        if a is None or b is None:
            return None
        return textio.native(concrete, a, b)

    return h


def _closure(graph: typing.Dict[int, typing.List[int]], roots: typing.List[int]) -> typing.Set[int]:
    seen = set()  # type: typing.Set[int]
    todo = list(roots)
    while todo:
        x = todo.pop()
        if x in seen:
            continue
        seen.add(x)
        todo += graph[x]
    return seen


def make_case_sequence():
    """
    Text level: a definition referring to the same type several times, with the letter case of one occurrence wrong at a
    choice position (every occurrence must be checked on its own).
    """
    spell = ["ns.Dep.1.0", "Dep.1.0", "ns.dep.1.0", "dep.1.0", "NS.Dep.1.0", "ns.DEP.1.0"]

    def concrete(i: int, j: int, k: int) -> typing.Any:
        import pydsdl
        from pydsdl import _namespace_reader as NR

        refs = [spell[i], spell[j], spell[k]]
        text = "".join("%s r%d\n" % (r, n) for n, r in enumerate(refs)) + "@sealed\n"
        t = textio.MemDefinition("ns.T", (1, 0), text)
        lookups = [textio.MemDefinition(*x) for x in LOOKUP] + [t]
        want = all(r in ("ns.Dep.1.0", "Dep.1.0") for r in refs)
        try:
            NR.read_definitions([t], lookups, None, True)
            got = True
        except pydsdl.InvalidDefinitionError:
            got = False
        if got != want:
            return "references %s: %s" % (refs, "accepted" if got else "rejected")
        return True

    def h(i: int, j: int, k: int) -> typing.Any:
        a, b, c = pick(i, 0, 5), pick(j, 0, 5), pick(k, 0, 5)
        if a is None or b is None or c is None:
            return None
        return textio.native(concrete, a, b, c)

    return h


# ------------------------------------------------------------------------------------------------------------------


def conditions(tier: str, seed: int) -> typing.List[Cond]:
    import random

    rnd = random.Random(seed)
    thorough = tier == "thorough"
    out = []  # type: typing.List[Cond]
    pairs = [(i, j) for i in range(len(NAMES)) for j in range(len(NAMES))]
    chosen = pairs if thorough else [(i, i) for i in range(len(NAMES))] + rnd.sample(pairs, 20) + [(1, 5), (0, 7), (3, 11)]
    for i1, i2 in chosen:
        for referrer in (["ns.T", "ns.sub.T"] if thorough else [rnd.choice(["ns.T", "ns.sub.T"])]):
            out.append(Cond(PROP, "c09.filter", make_filter, {"referrer": referrer, "i1": i1, "i2": i2},
                            {"M1": int, "m1": int, "M2": int, "m2": int},
                            assumptions=["versions M1.m1 and M2.m2: every pair in 0..255 (symbolic)",
                                         "names %r then %r resolved on one builder against 9 lookup definitions" % (NAMES[i1], NAMES[i2])],
                            witness={"M1": 1, "m1": 0, "M2": 1, "m2": 1}, budget=120.0, need_exhaust=True, fmtstub=True))
    all_orders = [list(p) for n in (1, 2, 3) for p in itertools.permutations([0, 1, 2], n)]
    for relative in (False, True):
        for dup in (-1, 1, 2, 0):
            orders = all_orders if thorough else rnd.sample(all_orders, 4) + [[0], [1, 0]]
            out.append(Cond(PROP, "c09.graph", make_graph, {"relative": relative, "dup": dup, "orders": orders},
                            {"bits": int, "oi": int}, kind="choice",
                            assumptions=["every subset of 8 reference edges over A, B, C.1.0, C.1.1 (chains, diamonds, several "
                                         "versions, self reference, cycles) x %d target orders; %s references; duplicate copy of "
                                         "node %d in another directory" % (len(orders), "relative" if relative else "absolute", dup)],
                            witness={"bits": 7, "oi": 0}, budget=1800.0, need_exhaust=True))
    for dup in (1, 2):
        orders = all_orders if thorough else rnd.sample(all_orders, 3) + [[0]]
        out.append(Cond(PROP, "c09.graph", make_graph, {"relative": False, "dup": dup, "orders": orders, "dup_same_root": True},
                        {"bits": int, "oi": int}, kind="choice",
                        assumptions=["as above; the duplicate of node %d lives in the SAME root directory under another file "
                                     "name (with a port-ID)" % dup],
                        witness={"bits": 7, "oi": 0}, budget=1800.0, need_exhaust=True))
    out.append(Cond(PROP, "c09.case-sequence", make_case_sequence, {}, {"i": int, "j": int, "k": int}, kind="choice",
                    assumptions=["three references to one type, each in one of 6 spellings (2 correct, 4 differing by case)"],
                    witness={"i": 0, "j": 1, "k": 0}, budget=300.0, need_exhaust=True))
    return out


def extra_evidence(tier: str) -> typing.Dict[str, typing.Any]:
    return {
        "bounds": {"graphs": "256 edge subsets over 4 definitions (3 names, one in two versions), 15 target orders, optional "
                             "duplicate copy of one definition", "filter": "14 reference spellings, symbolic versions 0..255"},
        "outside": ["graphs over more than 4 definitions", "file-system level lookup (directories): see C10 / C15"],
    }
