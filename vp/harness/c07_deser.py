"""
C07 - deserialization is total and obeys implicit truncation / zero extension.
Real code driven: pydsdl.deserialize (and serialize for the fixed-point clause) on SYMBOLIC byte strings.
"""

from __future__ import annotations

import typing

from ..symx import Cond, pick
from .. import types as T
from ..oracle import serdes as S, layout as L

PROP = "C07"

# arrays of composites (alignment 8 through their element type) right after sub-byte fields, and similar
ALIGN_SHAPES = [
    ["struct", ["u3", ["farr", ["struct", ["u8"]], 2], "u5"]],
    ["struct", ["bool", ["varr", ["struct", ["u8", "bool"]], 2], "u8"]],
    ["struct", ["u5", ["farr", ["delim", ["struct", ["u8"]], 16], 1], "bool"]],
    ["union", ["u3", ["varr", ["struct", ["u16"]], 1]]],
    # byte-aligned integer fields whose width is not a multiple of 8 (the tail bits live in a further byte)
    ["struct", ["u8", "u12", "u4"]],
    ["struct", ["i13", "u3", "u20", "u4"]],
]

REJ = ("rejected",)


def _real(t: typing.Any, b: typing.Any, **kw: typing.Any) -> typing.Any:
    import pydsdl

    try:
        return ("ok", pydsdl.deserialize(t, b, **kw))
    except (pydsdl.SerDesError, ValueError):
        return REJ


def _oracle(spec: typing.Any, b: typing.Any, n: int, with_header: bool = False) -> typing.Any:
    try:
        return ("ok", S.decode(spec, b, n, with_header))
    except S.Reject:
        return REJ
    except ValueError:  # invalid UTF-8 in a utf8 array: documented rejection class
        return REJ


def _same(a: typing.Any, b: typing.Any) -> bool:
    if a is REJ or b is REJ:
        return a is b
    return _eq(a[1], b[1])


def _eq(x: typing.Any, y: typing.Any) -> bool:
    if isinstance(x, float) or isinstance(y, float):
        return repr(x) == repr(y)
    if isinstance(x, dict):
        return isinstance(y, dict) and list(x.keys()) == list(y.keys()) and all(_eq(x[k], y[k]) for k in x)
    if isinstance(x, list):
        return isinstance(y, list) and len(x) == len(y) and all(_eq(p, q) for p, q in zip(x, y))
    return bool(x == y)


def _has_float(spec: typing.Any) -> bool:
    return "f16" in repr(spec) or "f32" in repr(spec) or "f64" in repr(spec)


def make_total(spec: typing.Any, n: int, ext: int, header: bool):
    """
    Every byte string of length n: real deserialize == O-SERDES decode (value or rejection, nothing else escapes);
    a returned object is a fixed point of serialize/deserialize; appending `ext` zero bytes changes nothing unless the
    oracle says a delimiter header becomes satisfiable.
    """
    import pydsdl

    def h(b: bytes) -> typing.Any:
        if len(b) != n:
            return None
        t = T.build(spec)
        kw = {"with_delimiter_header": True} if header else {}
        got = _real(t, b, **kw)
        want = _oracle(spec, b, n, header)
        if not _same(got, want):
            return "deserialize(%r): got %r, Specification says %r" % (b, got, want)
        if got is not REJ:
            again = pydsdl.serialize(t, got[1], **kw)
            back = _real(t, again, **kw)
            if not _same(back, got):
                return "not a fixed point: %r -> %r -> %r" % (got, again, back)
        if ext:
            b2 = b + bytes(ext)
            got2 = _real(t, b2, **kw)
            want2 = _oracle(spec, b2, n + ext, header)
            if not _same(got2, want2):
                return "zero-extended input: got %r want %r" % (got2, want2)
            if got is not REJ and not _same(got2, got):
                return "zero extension changed an accepted value: %r vs %r" % (got, got2)
        return True

    return h


def make_trunc(spec: typing.Any, template: typing.Any, junk: int):
    """A complete representation followed by symbolic junk decodes like the representation alone."""
    import pydsdl

    def h(j: bytes) -> typing.Any:
        if len(j) != junk:
            return None
        t = T.build(spec)
        rep = pydsdl.serialize(t, template)
        a = _real(t, rep)
        b = _real(t, rep + j)
        if a is REJ:
            return "own representation rejected"
        if not _same(a, b):
            return "trailing bytes are not ignored: %r vs %r" % (a, b)
        return True

    return h


def make_prefix(spec: typing.Any, template: typing.Any, header: bool = False, tail: str = ""):
    """
    Every prefix of a valid representation (choice over the cut) and every single-bit corruption of it; `tail` (hex)
    is appended to the representation (bytes beyond the end that must never leak into the value).
    """
    import pydsdl

    t0 = T.build(spec)
    kw = {"with_delimiter_header": True} if header else {}
    rep0 = pydsdl.serialize(t0, template, **kw) + bytes.fromhex(tail)

    def h(cut: int, bit: int) -> typing.Any:
        c = pick(cut, 0, len(rep0))
        k = pick(bit, -1, 8 * len(rep0) - 1)
        if c is None or k is None:
            return None
        from .. import textio

        return textio.native(body, c, k)

    def body(c: int, k: int) -> typing.Any:
        t = T.build(spec)
        data = bytearray(rep0)
        if k >= 0:
            data[k // 8] ^= 1 << (k % 8)
        data = bytes(data[:c])
        got = _real(t, data, **kw)
        want = _oracle(spec, data, len(data), header)
        if not _same(got, want):
            return "prefix %d / flipped bit %d: got %r want %r" % (c, k, got, want)
        return True

    return h


# byte / utf8 arrays inside delimited objects, followed by non-zero data (bytes beyond a payload must read as zero)
BOUNDED = [
    (["struct", [["delim", ["struct", [["varr", "byte", 4]]], 48], "u8", "u8"]], {"f0": {"f0": [65, 66]}, "f1": 0x43, "f2": 0x44}, False, ""),
    (["struct", [["delim", ["struct", ["u8", ["varr", "utf8", 4]]], 56], "u16"]], {"f0": {"f0": 7, "f1": "xy"}, "f1": 0x4645}, False, ""),
    (["delim", ["struct", [["varr", "byte", 3]]], 32], {"f0": [65]}, True, "4243444546"),
    (["delim", ["struct", [["farr", "byte", 3], "u8"]], 64], {"f0": [65, 66, 67], "f1": 9}, True, "5152"),
    (["struct", [["farr", ["delim", ["struct", [["varr", "u8", 3]]], 32], 2], "u8"]], {"f0": [{"f0": [1]}, {"f0": [2, 3]}], "f1": 0x77}, False, ""),
    # delimited in delimited with TIGHT extents (payload length == extent) and data after the nested object
    (["struct", [["delim", ["struct", [["delim", ["struct", ["u8"]], 8], "u8"]], 48], "u8", "u8"]],
     {"f0": {"f0": {"f0": 7}, "f1": 9}, "f1": 0x55, "f2": 0x66}, False, ""),
    (["delim", ["struct", [["delim", ["struct", ["u16"]], 16], ["delim", ["struct", ["u8"]], 8]]], 88],
     {"f0": {"f0": 0x1234}, "f1": {"f0": 0x56}}, True, "a1a2a3a4a5a6"),
]

# twins: composites that compare EQUAL (same name, version and bit length set) but differ in structure
TWINS = [
    (["union", ["u8", "u16"]], ["union", ["u16", "u8"]]),
    (["union", ["u8", "u16", "u16"]], ["union", ["u16", "u8"]]),
    (["struct", ["u8", "u8"]], ["struct", ["u16"]]),
    (["struct", [["union", ["u8", "bool"]], "u8"]], ["struct", [["union", ["bool", "u8"]], "u8"]]),
    (["delim", ["struct", ["u8", "u16"]], 64], ["delim", ["struct", ["u16", "u8", "u8"]], 64]),
]


def make_twins(pair: int, first: int):
    """
    Both twins are used in ONE process, `first` first: each must decode by its own definition (state keyed by type
    equality - which cannot tell the twins apart - would leak from one to the other).
    """
    import pydsdl

    specs = TWINS[pair]

    def concrete(k: int) -> typing.Any:
        order = [first, 1 - first]
        types = {}
        for i in (0, 1):
            T._counter[0] = 5000  # pylint: disable=protected-access  (identical generated names for both twins)
            types[i] = T.build(specs[i])
        if not (types[0] == types[1]):
            return "harness: twins do not compare equal"
        datas = [b"", b"\x00", b"\x01\x05", b"\x01\x05\x06\x07", b"\x02\x05\x06", b"\x00\xff\xee\xdd", b"\x04\x00\x00\x00\x09\x08\x07\x06"]
        data = datas[k]
        for i in order:
            got = _real(types[i], data)
            want = _oracle(specs[i], data, len(data))
            if not _same(got, want):
                return "twin %d (%s) decodes %r as %r, its own definition says %r" % (i, T.spec_str(specs[i]), data, got, want)
            if got is not REJ:
                back = _real(types[i], pydsdl.serialize(types[i], got[1]))
                if not _same(back, got):
                    return "twin %d: not a fixed point" % i
        return True

    def h(k: int) -> typing.Any:
        a = pick(k, 0, 6)
        if a is None:
            return None
        from .. import textio

        return textio.native(concrete, a)

    return h


def conditions(tier: str, seed: int) -> typing.List[Cond]:
    import random

    thorough = tier == "thorough"
    rnd = random.Random(seed)
    out = []  # type: typing.List[Cond]
    shapes = [s for s in T.catalogue(tier, seed) + ALIGN_SHAPES if not _has_float(s)]
    for spec in shapes:
        subbyte = any(x in repr(spec) for x in ("'u3'", "'bool'", "'i13'", "'u5'", "'void3'", "'tu9'", "'tu5'"))
        heavy = subbyte or "delim" in repr(spec[1:]) or "utf8" in repr(spec)
        # the bit reader's slow path ORs one bit at a time (CrossHair realises `|`): 2**bits paths for sub-byte shapes
        top = (1 if heavy else 3) + (1 if thorough else 0)
        for n in range(0, top + 1):
            out.append(Cond(PROP, "c07.total", make_total, {"spec": spec, "n": n, "ext": 2 if n <= 1 else 0, "header": False},
                            {"b": bytes}, assumptions=["every byte string of exactly %d bytes" % n],
                            witness={"b": bytes(n)}, budget=1500.0 if thorough else 200.0))
        if spec[0] == "delim":
            for n in range(0, 6 if thorough else 2):
                out.append(Cond(PROP, "c07.header", make_total, {"spec": spec, "n": n, "ext": 1, "header": True},
                                {"b": bytes}, assumptions=["every byte string of exactly %d bytes, top-level delimiter header" % n],
                                witness={"b": bytes(n)}, budget=300.0))
    from .c06_serdes import _template

    for spec in shapes:
        if not S.slots(spec):
            continue
        tv = _template(spec, rnd)
        for junk in (1, 2) if not thorough else (1, 2, 3):
            out.append(Cond(PROP, "c07.trunc", make_trunc, {"spec": spec, "template": tv, "junk": junk}, {"j": bytes},
                            assumptions=["%d symbolic junk bytes after a complete representation" % junk],
                            witness={"j": b"\xff" * junk}, budget=200.0))
        out.append(Cond(PROP, "c07.prefix", make_prefix, {"spec": spec, "template": tv}, {"cut": int, "bit": int},
                        kind="choice", assumptions=["every prefix x every single-bit corruption (choice)"],
                        witness={"cut": 0, "bit": -1}, budget=300.0))
    for spec, tv, header, tail in BOUNDED:
        out.append(Cond(PROP, "c07.bounded", make_prefix, {"spec": spec, "template": tv, "header": header, "tail": tail},
                        {"cut": int, "bit": int}, kind="choice",
                        assumptions=["byte/utf8 arrays inside delimited objects followed by non-zero data: every prefix x "
                                     "every single-bit corruption"],
                        witness={"cut": 0, "bit": -1}, budget=300.0, need_exhaust=True))
    for pi in range(len(TWINS)):
        for first in (0, 1):
            out.append(Cond(PROP, "c07.twins", make_twins, {"pair": pi, "first": first}, {"k": int}, kind="choice",
                            assumptions=["two equal-comparing but structurally different composites decoded in one process, "
                                         "7 inputs"], witness={"k": 2}, budget=120.0, need_exhaust=True))
    return out


def extra_evidence(tier: str) -> typing.Dict[str, typing.Any]:
    return {
        "bounds": {"input length": "0..3 bytes for byte-aligned shapes, 0..1 for shapes with sub-byte fields, nested delimited or utf8 members (+1 thorough); single-bit corruptions and prefixes of valid representations of any length (choice-exhaustive)",
                   "types": "catalogue shapes without float fields"},
        "outside": ["inputs longer than the bound", "float fields (struct.unpack is a C boundary)",
                    "shapes outside the catalogue"],
    }


_ = L


def lemmas(tier: str, seed: int) -> typing.List[typing.Dict[str, typing.Any]]:
    """E3: SMT obligations over the AST -> SMT encoding of the bit kernels (vp/pz.py, vp/pz_obl.py)."""
    from .. import pz_obl

    return pz_obl.run(tier, seed, want=("R", "S"))
