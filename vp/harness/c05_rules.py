"""
C05 - a definition is accepted if and only if it obeys the static rules of DSDL.
Real code driven: type constructors (_primitive, _void, _array, _composite), check_name, DataTypeBuilder directive
handling and finalize (regulated port-IDs), through in-memory definitions read with the real DSDLDefinition.read.
Numeric rules have the number symbolic; structural rules are violations applied to a valid skeleton (choice).
"""

from __future__ import annotations

import typing

from ..symx import Cond, pick
from .. import textio, types as T

PROP = "C05"

LEAF = ("ns.Leaf", (1, 0), "uint8 v\n@sealed\n")
OLD = ("ns.Old", (1, 0), "@deprecated\nuint8 v\n@sealed\n")
SVC = ("ns.Svc", (1, 0), "uint8 a\n@sealed\n---\nuint8 b\n@sealed\n")


def _accepts(text: typing.Any, env: typing.Optional[typing.Mapping[str, typing.Any]] = None, full_name: str = "ns.T",
             version: typing.Tuple[typing.Any, typing.Any] = (1, 0), port: typing.Any = None, allow: bool = True,
             plain: bool = False) -> typing.Any:
    """True / False = accepted / rejected with an InvalidDefinitionError; anything else escapes."""
    import pydsdl

    d = textio.MemDefinition(full_name, version, text, port, plain_file_name=plain)
    lookup = [textio.MemDefinition(*LEAF), textio.MemDefinition(*OLD), textio.MemDefinition(*SVC)]
    try:
        with textio.symbolic_env(env or {}), textio.native_grammar():
            d.read(lookup, [], lambda *_: None, allow)
    except pydsdl.InvalidDefinitionError:
        return False
    return True


def _iff(got: typing.Any, want: typing.Any, what: str) -> typing.Any:
    if got and not want:
        return "accepted although %s" % what
    if want and not got:
        return "rejected although valid (%s)" % what
    return True


# ------------------------------------------------------------------------------------------------------------------
# numeric rules with the number symbolic


def make_version(kind: str, via: str):
    def h(major: int, minor: int) -> typing.Any:
        import pydsdl

        want = (0 <= major <= 255) and (0 <= minor <= 255) and not (major == 0 and minor == 0)
        if via == "ctor":
            try:
                T.composite(kind, [T.prim("u8"), T.prim("u16")], version=(major, minor))
                got = True
            except pydsdl.InvalidDefinitionError:
                got = False
        else:
            body = "@union\nuint8 a\nuint16 b\n@sealed\n" if kind == "union" else "uint8 a\n@sealed\n"
            got = _accepts(body, version=(major, minor), plain=True)
        return _iff(got, want, "version out of 0..255 or 0.0")

    return h


def make_portid(service: bool, root: str, allow: bool, via: str):
    standard = root in ("uavcan", "cyphal")

    def h(p: int) -> typing.Any:
        import pydsdl

        if service:
            want = 0 <= p <= 511
            if not allow:
                want = want and ((384 <= p <= 511) if standard else (256 <= p <= 383))
        else:
            want = 0 <= p <= 8191
            if not allow:
                want = want and ((7168 <= p <= 8191) if standard else (6144 <= p <= 7167))
        if via == "dep":
            # the definition with the port-ID is reached only as a dependency of the one being read
            body = "uint8 a\n@sealed\n---\nuint8 b\n@sealed\n" if service else "uint8 a\n@sealed\n"
            d = textio.MemDefinition(root + ".Dep", (1, 0), body, p, plain_file_name=True)
            if service:
                return None  # a service type cannot be a field type
            t = textio.MemDefinition(root + ".T", (1, 0), root + ".Dep.1.0 d\n" + root + ".Dep.1.0[<=2] dd\n@sealed\n")
            try:
                with textio.native_grammar():
                    t.read([d], [], lambda *_: None, allow)
                got = True
            except pydsdl.InvalidDefinitionError:
                got = False
            return _iff(got, want, "port-ID of a dependency outside the permitted range")
        if via == "ctor":
            try:
                if service:
                    rq = T.composite("struct", [T.prim("u8")], name=root + ".S.Request", has_parent_service=True)
                    rs = T.composite("struct", [T.prim("u8")], name=root + ".S.Response", has_parent_service=True)
                    pydsdl.ServiceType(rq, rs, p)
                else:
                    T.composite("struct", [T.prim("u8")], name=root + ".M", fixed_port_id=p)
                got = True
            except pydsdl.InvalidDefinitionError:
                got = False
            if not allow:
                return None  # regulated ranges are enforced by the builder, not the constructors
        else:
            body = "uint8 a\n@sealed\n---\nuint8 b\n@sealed\n" if service else "uint8 a\n@sealed\n"
            got = _accepts(body, full_name=root + ".T", port=p, allow=allow, plain=True)
        return _iff(got, want, "port-ID outside the permitted range")

    return h


def make_capacity(form: str, elem: str):
    text = {"fixed": "%s[a] x", "incl": "%s[<=a] x", "excl": "%s[<a] x"}[form] % elem + "\n@sealed\n"
    least = 2 if form == "excl" else 1

    def h(a: int) -> typing.Any:
        from pydsdl import _expression as E

        if not -(2 ** 70) <= a <= 2 ** 62:
            return None
        got = _accepts(text, {"a": E.Rational(a)})
        return _iff(got, a >= least, "capacity below %d" % least)

    return h


def make_extent(body: typing.List[str], need: int, union: bool):
    text = ("@union\n" if union else "") + "\n".join(body) + "\n@extent a\n"

    def h(a: int) -> typing.Any:
        from pydsdl import _expression as E

        if not -(2 ** 70) <= a <= 2 ** 70:
            return None
        got = _accepts(text, {"a": E.Rational(a)})
        return _iff(got, a % 8 == 0 and a >= need, "extent not a multiple of 8 or below %d" % need)

    return h


EXTENT_VALUES = [("64", True), ("128 / 2", True), ("64.0", True), ("129 / 2", False), ("64.5", False), ("1e2", False),
                 ("96 + 1/3", False), ("8 * 8", True), ("2 ** 6", True), ("2 ** 6.5", False), ("63", False), ("56", True), ("32", False),
                 ("-64", False), ("0", False), ("true", False), ("'8'", False), ("{64}", False), ("{64}.max", True),
                 ("_offset_.max + 24", True), ("_offset_", False), ("64 % 65", True), ("1/0", False)]


def make_extent_values():
    """@extent with integer, fractional, real, non-numeric and computed operands (body needs 40 bits)."""

    def h(i: int) -> typing.Any:
        a = pick(i, 0, len(EXTENT_VALUES) - 1)
        if a is None:
            return None
        expr, want = EXTENT_VALUES[a]
        text = "uint8 x\nuint32 y\n@extent %s\n" % expr
        return textio.native(lambda: _iff(_accepts(text), want, "@extent %s" % expr))

    return h


def make_width():
    KW = ["uint", "int", "float", "void", "truncated uint", "truncated int", "truncated float", "saturated uint",
          "saturated int", "saturated float"]

    def concrete(k: int, w: int) -> typing.Any:
        kw = KW[k]
        base = kw.split()[-1]
        if base == "void":
            text, want = "void%d\n@sealed\n" % w, 1 <= w <= 64
        else:
            text = "%s%d x\n@sealed\n" % (kw, w)
            if base == "uint":
                want = 1 <= w <= 64
            elif base == "int":
                want = 2 <= w <= 64 and not kw.startswith("truncated")
            else:
                want = w in (16, 32, 64)
        return _iff(_accepts(text), want, "bit width %d illegal for %s" % (w, kw))

    def h(k: int, w: int) -> typing.Any:
        a, b = pick(k, 0, len(KW) - 1), pick(w, 0, 70)
        if a is None or b is None:
            return None
        return textio.native(concrete, a, b)

    return h


# ------------------------------------------------------------------------------------------------------------------
# names

RESERVED_WORDS = ["truncated", "saturated", "true", "false", "bool", "optional", "aligned", "const", "struct", "super",
                  "template", "enum", "self", "and", "or", "not", "auto", "type", "con", "prn", "aux", "nul"]


def spec_name_ok(name: str) -> bool:
    """The Specification's name rules, written without regular expressions (concrete strings only)."""
    if not name:
        return False
    first = "abcdefghijklmnopqrstuvwxyzABCDEFGHIJKLMNOPQRSTUVWXYZ_"
    if name[0] not in first:
        return False
    for ch in name:
        if ch not in first + "0123456789":
            return False
    low = name.lower()
    if low in RESERVED_WORDS:
        return False

    def digits(s: str, at_least: int) -> bool:
        return len(s) >= at_least and all(c in "0123456789" for c in s)

    for pre in ("void", "uint", "int", "float"):
        if low.startswith(pre) and digits(low[len(pre):], 0):
            return False
    for pre in ("uq", "q"):
        if low.startswith(pre):
            rest = low[len(pre):].split("_")
            if len(rest) == 2 and digits(rest[0], 1) and digits(rest[1], 1):
                return False
    for pre in ("com", "lpt"):
        if low.startswith(pre) and len(low) == len(pre) + 1 and digits(low[len(pre):], 1):
            return False
    if len(low) >= 2 and low[0] == "_" and low[-1] == "_":
        return False
    return True


def make_name_symbolic(n: int):
    """check_name on a symbolic str of length n vs the rules restricted to what can be said about n characters."""

    def h(s: str) -> typing.Any:
        from pydsdl._serializable._name import check_name, InvalidNameError

        if len(s) != n:
            return None
        try:
            check_name(s)
            got = True
        except InvalidNameError:
            got = False
        first_ok = len(s) > 0 and (("a" <= s[0] <= "z") or ("A" <= s[0] <= "Z") or s[0] == "_")
        rest_ok = True
        for ch in s[1:]:
            if not (("a" <= ch <= "z") or ("A" <= ch <= "Z") or ch == "_" or ("0" <= ch <= "9")):
                rest_ok = False
        want = first_ok and rest_ok
        if want:
            low = s.lower()
            if n == 2 and (low == "or" or low == "__"):
                want = False
            if n == 2 and low[0] == "q" and False:
                want = False
            if n == 3 and (low in RESERVED_WORDS or (low[0] == "_" and low[2] == "_")):
                want = False
            if n == 3 and low == "int":
                want = False
        return _iff(got, want, "name %r" % s)

    return h


def make_name_words(place: str):
    """Reserved words with every case pattern of the first 4 letters, near misses, numbered families (native)."""
    fam = ["void", "void1", "void64", "void99999", "uint", "uint8", "int", "int007", "float", "float128", "q1_1", "uq16_8",
           "q_1", "q1_", "uq", "q", "com1", "com0", "lpt9", "com", "com10", "lptx", "_", "__", "_a_", "_a", "a_", "___",
           "a", "abc", "voidx", "uintx8", "floaty", "xvoid", "struct_", "selfie", "orr", "nott", "x", "T", "Type_", "typ"]
    words = RESERVED_WORDS + fam

    def concrete(i: int, mask: int) -> typing.Any:
        import pydsdl

        w = words[i]
        name = "".join(c.upper() if (mask >> j) & 1 and j < 4 else c for j, c in enumerate(w))
        want = spec_name_ok(name)
        if place == "attribute":
            got = _accepts("uint8 %s\n@sealed\n" % name)
        elif place == "constant":
            got = _accepts("uint8 %s = 1\n@sealed\n" % name)
        elif place == "short-name":
            got = _accepts("uint8 a\n@sealed\n", full_name="ns." + name)
        elif place == "namespace":
            got = _accepts("uint8 a\n@sealed\n", full_name="ns." + name + ".T")
        else:
            try:
                T.composite("struct", [T.prim("u8")], name=name + ".T")
                got = True
            except pydsdl.InvalidDefinitionError:
                got = False
        return _iff(got, want, "name %r as %s" % (name, place))

    def h(i: int, mask: int) -> typing.Any:
        a, m = pick(i, 0, len(words) - 1), pick(mask, 0, 15)
        if a is None or m is None:
            return None
        return textio.native(concrete, a, m)

    return h


# ------------------------------------------------------------------------------------------------------------------
# structural rules: violations applied to a valid skeleton (native, choice-exhaustive)

SKELETONS = {
    # kind: (lines before attributes, attribute lines, lines after)
    "struct": ([], ["uint8 a", "ns.Leaf.1.0 b", "uint16[<=3] c", "void4", "utf8[<=8] s", "byte[4] raw", "bool K = true"],
               ["@sealed"]),
    "union": (["@union"], ["uint8 a", "ns.Leaf.1.0 b", "uint16[<=3] c", "byte[<=4] raw", "uint8 K = 3"], ["@sealed"]),
    "delimited": ([], ["uint8 a", "ns.Leaf.1.0[2] b", "float16 K = 0.5"], ["@extent 64 * 8"]),
    "deprecated": (["@deprecated"], ["uint8 a", "ns.Old.1.0 o", "ns.Old.1.0[<=2] oo", "uint8 K = 3"], ["@sealed"]),
}

# (name, slot, applies-to kinds, function(pre, attrs, post, pos) -> (pre, attrs, post))
# violations sharing a slot are alternatives and are never combined


def _ins(attrs: typing.List[str], pos: int, line: str) -> typing.List[str]:
    p = pos % (len(attrs) + 1)
    return attrs[:p] + [line] + attrs[p:]


VIOLATIONS = [
    ("dup-field", "dup", "*", lambda pre, at, po, p: (pre, _ins(at, p, "uint16 a"), po)),
    ("dup-field-const", "dup", "*", lambda pre, at, po, p: (pre, _ins(at, p, "uint8 a = 1"), po)),
    ("dup-const-field", "dup", "*", lambda pre, at, po, p: (pre, _ins(at, p, "bool K"), po)),
    ("dup-const", "dup", "*", lambda pre, at, po, p: (pre, _ins(at, p, "uint8 K = 1"), po)),
    ("named-void", "attr1", "*", lambda pre, at, po, p: (pre, _ins(at, p, "void8 named"), po)),
    ("utf8-scalar", "attr1", "*", lambda pre, at, po, p: (pre, _ins(at, p, "utf8 u"), po)),
    ("utf8-fixed", "attr1", "*", lambda pre, at, po, p: (pre, _ins(at, p, "utf8[3] u"), po)),
    ("byte-scalar", "attr1", "*", lambda pre, at, po, p: (pre, _ins(at, p, "byte z"), po)),
    ("utf8-nested-fixed", "attr1", "*", lambda pre, at, po, p: (pre, _ins(at, p, "utf8[<=3][2] u"), po)),
    ("void-array", "attr1", "*", lambda pre, at, po, p: (pre, _ins(at, p, "void3[2] v"), po)),
    ("service-field", "attr1", "*", lambda pre, at, po, p: (pre, _ins(at, p, "ns.Svc.1.0 sv"), po)),
    ("service-array", "attr1", "*", lambda pre, at, po, p: (pre, _ins(at, p, "ns.Svc.1.0[2] sv"), po)),
    ("service-varray", "attr1", "*", lambda pre, at, po, p: (pre, _ins(at, p, "ns.Svc.1.0[<=2] sv"), po)),
    ("bad-width", "attr2", "*", lambda pre, at, po, p: (pre, _ins(at, p, "uint65 w"), po)),
    ("int1", "attr2", "*", lambda pre, at, po, p: (pre, _ins(at, p, "int1 w"), po)),
    ("trunc-signed", "attr2", "*", lambda pre, at, po, p: (pre, _ins(at, p, "truncated int8 w"), po)),
    ("float24", "attr2", "*", lambda pre, at, po, p: (pre, _ins(at, p, "float24 w"), po)),
    ("capacity-0", "attr2", "*", lambda pre, at, po, p: (pre, _ins(at, p, "uint8[0] w"), po)),
    ("capacity-excl-1", "attr2", "*", lambda pre, at, po, p: (pre, _ins(at, p, "uint8[<1] w"), po)),
    ("reserved-name", "attr2", "*", lambda pre, at, po, p: (pre, _ins(at, p, "uint8 Float32"), po)),
    ("const-range", "attr2", "*", lambda pre, at, po, p: (pre, _ins(at, p, "uint8 BIG = 256"), po)),
    ("union-padding", "attr3", "union", lambda pre, at, po, p: (pre, _ins(at, p, "void8"), po)),
    ("union-one-variant", "arity", "union", lambda pre, at, po, p: (pre, [at[0], at[-1]], po)),
    ("union-no-variant", "arity", "union", lambda pre, at, po, p: (pre, [at[-1]], po)),
    ("deprecated-dep", "dep", "struct,union,delimited", lambda pre, at, po, p: (pre, _ins(at, p, "ns.Old.1.0 o"), po)),
    ("deprecated-dep-farr", "dep", "struct,union,delimited", lambda pre, at, po, p: (pre, _ins(at, p, "ns.Old.1.0[2] o"), po)),
    ("deprecated-dep-varr", "dep", "struct,union,delimited", lambda pre, at, po, p: (pre, _ins(at, p, "ns.Old.1.0[<=2] o"), po)),
    ("deprecated-dep-nested", "dep", "struct,union,delimited", lambda pre, at, po, p: (pre, _ins(at, p, "ns.Old.1.0[<=2][3] o"), po)),
    ("no-sealing", "seal", "*", lambda pre, at, po, p: (pre, at, [])),
    ("sealed-and-extent", "seal", "*", lambda pre, at, po, p: (pre, at, ["@sealed", "@extent 1024"])),
    ("extent-and-sealed", "seal", "*", lambda pre, at, po, p: (pre, at, ["@extent 1024", "@sealed"])),
    ("dup-sealed", "seal", "*", lambda pre, at, po, p: (pre, at, ["@sealed", "@sealed"])),
    ("dup-extent", "seal", "*", lambda pre, at, po, p: (pre, at, ["@extent 1024", "@extent 1024"])),
    ("extent-before-attr", "seal", "*", lambda pre, at, po, p: (pre, at[:-1], ["@extent 1024", at[-1]])),
    ("extent-odd", "seal", "*", lambda pre, at, po, p: (pre, at, ["@extent 1020"])),
    ("extent-small", "seal", "*", lambda pre, at, po, p: (pre, at, ["@extent 8"])),
    ("extent-arg-missing", "seal", "*", lambda pre, at, po, p: (pre, at, ["@extent"])),
    ("sealed-arg", "seal", "*", lambda pre, at, po, p: (pre, at, ["@sealed 1"])),
    ("union-dup", "pre", "union", lambda pre, at, po, p: (pre + ["@union"], at, po)),
    ("union-after-field", "pre", "struct,delimited", lambda pre, at, po, p: (pre, [at[0], "@union"] + at[1:], po)),
    ("union-after-const", "pre", "union", lambda pre, at, po, p: ([x for x in pre if x != "@union"], [at[-1], "@union"] + at[:-1], po)),
    ("deprecated-dup", "pre", "deprecated", lambda pre, at, po, p: (pre + ["@deprecated"], at, po)),
    ("deprecated-after-field", "pre", "struct,union,delimited", lambda pre, at, po, p: (pre, [at[0], "@deprecated"] + at[1:], po)),
    ("deprecated-after-const", "pre", "struct,union,delimited", lambda pre, at, po, p: (pre, [at[-1], "@deprecated"] + at[:-1], po)),
    ("deprecated-arg", "pre", "struct,union,delimited", lambda pre, at, po, p: (pre + ["@deprecated 1"], at, po)),
    ("unknown-directive", "misc", "*", lambda pre, at, po, p: (pre, _ins(at, p, "@frobnicate"), po)),
    ("assert-false", "misc", "*", lambda pre, at, po, p: (pre, _ins(at, p, "@assert 1 > 2"), po)),
    ("undefined-dep", "misc", "*", lambda pre, at, po, p: (pre, _ins(at, p, "ns.Nope.1.0 n"), po)),
]
# harmless edits: applying them must NOT cause rejection (guards against an over-eager oracle-free "reject all")
BENIGN = [
    ("extra-const", lambda pre, at, po, p: (pre, _ins(at, p, "float32 PI = 3.14"), po)),
    ("extra-assert", lambda pre, at, po, p: (pre, _ins(at, p, "@assert true"), po)),
    ("extra-comment", lambda pre, at, po, p: (pre, _ins(at, p, "# nothing"), po)),
    ("extra-print", lambda pre, at, po, p: (pre, _ins(at, p, "@print 1 + 1"), po)),
]


def _applies(v: typing.Any, kind: str) -> bool:
    return v[2] == "*" or kind in v[2].split(",")


def _render(kind: str, service: str, pre: typing.List[str], at: typing.List[str], po: typing.List[str]) -> str:
    sk = SKELETONS[kind]
    good = sk[0] + sk[1] + sk[2]
    plain = [x for x in good if x != "@deprecated"]
    mine = pre + at + po
    if service == "message":
        lines = mine
    elif service == "request":
        lines = mine + ["---"] + plain
    else:
        # @deprecated is legal only in the first section: keep it there
        dep = [x for x in mine if x == "@deprecated"][:1] if kind == "deprecated" else []
        rest = list(mine)
        if dep:
            rest.remove("@deprecated")
        lines = dep + ["uint8 rq", "@sealed", "---"] + rest
    return "\n".join(lines) + "\n"


def make_structure(kind: str, service: str, v1: int, pairs: bool):
    """Violation v1 (index, -1 = none) plus, if `pairs`, a second violation / benign edit chosen by the engine."""
    sk = SKELETONS[kind]
    cands = [i for i, v in enumerate(VIOLATIONS) if _applies(v, kind)]

    def concrete(pos: int, second: int) -> typing.Any:
        pre, at, po = list(sk[0]), list(sk[1]), list(sk[2])
        names = []
        bad = False
        if v1 >= 0:
            pre, at, po = VIOLATIONS[v1][3](pre, at, po, pos)
            names.append(VIOLATIONS[v1][0])
            bad = True
        if second >= 0:
            if second < len(cands):
                v = VIOLATIONS[cands[second]]
                if v1 >= 0 and (v[1] == VIOLATIONS[v1][1]):
                    return True  # same slot: alternatives, not combinable
                if v1 >= 0 and {v[1], VIOLATIONS[v1][1]} == {"pre", "arity"}:
                    return True  # the arity edits rebuild the attribute list and may drop a moved @union: could cancel
                pre, at, po = v[3](pre, at, po, pos + 1)
                names.append(v[0])
                bad = True
            else:
                b = BENIGN[second - len(cands)]
                pre, at, po = b[1](pre, at, po, pos + 2)
                names.append(b[0])
        if service == "response" and kind == "deprecated" and any(n.startswith("deprecated-") for n in names):
            return True  # the section split moves @deprecated lines: outside this generator
        text = _render(kind, service, pre, at, po)
        got = _accepts(text)
        if got and bad:
            return "accepted with violation(s) %s: %r" % ("+".join(names), text)
        if not got and not bad:
            return "valid definition rejected (%s): %r" % ("+".join(names) or "skeleton", text)
        return True

    nsecond = (len(cands) + len(BENIGN)) if pairs else 0

    def h(pos: int, second: int) -> typing.Any:
        a = pick(pos, 0, 3)
        if a is None:
            return None
        if pairs:
            b = pick(second, 0, nsecond - 1)
            if b is None:
                return None
        else:
            if second != 0:
                return None
            b = -1
        return textio.native(concrete, a, b)

    return h


def make_section_rules():
    """Service-level placement rules (native): duplicate marker, @deprecated in the response, sealing per section."""
    cases = [
        ("uint8 a\n@sealed\n---\nuint8 b\n@sealed\n", True),
        ("uint8 a\n@sealed\n---\nuint8 b\n@sealed\n---\nuint8 c\n@sealed\n", False),
        ("uint8 a\n@sealed\n---\n@deprecated\nuint8 b\n@sealed\n", False),
        ("@deprecated\nuint8 a\n@sealed\n---\nuint8 b\n@sealed\n", True),
        ("uint8 a\n---\nuint8 b\n@sealed\n", False),
        ("uint8 a\n@sealed\n---\nuint8 b\n", False),
        ("uint8 a\n@extent 64\n---\n@union\nuint8 b\nuint8 c\n@sealed\n", True),
        ("@union\nuint8 a\n@sealed\n---\nuint8 b\n@sealed\n", False),
        ("uint8 a\n@sealed\n---\n@union\nuint8 b\n@sealed\n", False),
        ("---\n@sealed\n", False),
        ("@sealed\n---\n@sealed\n", True),
        ("@sealed\n----------\n@sealed\n", True),
        ("@sealed\n--\n@sealed\n", False),
        ("uint8 a\nuint8 x = 1\n@sealed\n---\nuint8 a\nuint8 x = 2\n@sealed\n", True),
        ("ns.Old.1.0 o\n@sealed\n---\n@sealed\n", False),
        ("@sealed\n---\nns.Old.1.0[2] o\n@sealed\n", False),
        ("@deprecated\n@sealed\n---\nns.Old.1.0[2] o\n@sealed\n", True),
    ]

    def h(i: int) -> typing.Any:
        a = pick(i, 0, len(cases) - 1)
        if a is None:
            return None
        text, want = cases[a]
        return textio.native(lambda: _iff(_accepts(text), want, "service-level rule, %r" % text))

    return h


# ------------------------------------------------------------------------------------------------------------------
# E2: the live reserved-name patterns denote the Specification's language (z3 regular expressions)


def lemmas(tier: str, seed: int) -> typing.List[typing.Dict[str, typing.Any]]:
    import time
    import z3
    from pydsdl._serializable import _name

    def lit(s: str) -> typing.Any:
        return z3.Re(z3.StringVal(s))

    digit = z3.Range("0", "9")
    anyc = z3.Union(z3.Range("a", "z"), digit, lit("_"))

    def translate(pat: str) -> typing.Any:
        """Python `re` pattern (subset: literals, \\d, ., ?, *, +, trailing $) anchored at the start -> z3 regex."""
        assert pat.endswith("$"), pat
        pat = pat[:-1]
        items = []  # type: typing.List[typing.Any]
        i = 0
        while i < len(pat):
            c = pat[i]
            if c == "\\":
                assert pat[i + 1] == "d", pat
                atom = digit
                i += 2
            elif c == ".":
                atom = anyc
                i += 1
            elif c in "?*+()[]|{}^":
                raise ValueError("unsupported construct %r in %r" % (c, pat))
            else:
                atom = lit(c)
                i += 1
            if i < len(pat) and pat[i] in "?*+":
                atom = {"?": z3.Option, "*": z3.Star, "+": z3.Plus}[pat[i]](atom)
                i += 1
            items.append(atom)
        return z3.Concat(*items) if len(items) > 1 else items[0]

    t0 = time.perf_counter()
    try:
        live = []
        for p in _name._DISALLOWED_NAME_PATTERNS:  # pylint: disable=protected-access
            live.append(lit(p) if isinstance(p, str) else translate(p.pattern))
        live_re = z3.Union(*live)
    except Exception as ex:  # pylint: disable=broad-except
        return [{"name": "c05.reserved-language", "status": "inconclusive: %s" % ex, "time_s": 0.0}]
    dstar, dplus = z3.Star(digit), z3.Plus(digit)
    spec = [lit(w) for w in RESERVED_WORDS]
    spec += [z3.Concat(lit(p), dstar) for p in ("void", "uint", "int", "float")]
    spec += [z3.Concat(lit(p), dplus, lit("_"), dplus) for p in ("uq", "q")]
    spec += [z3.Concat(lit(p), digit) for p in ("com", "lpt")]
    spec += [z3.Concat(lit("_"), z3.Star(anyc), lit("_"))]
    spec_re = z3.Union(*spec)
    out = []
    bound = 24 if tier == "thorough" else 12
    s = z3.String("s")
    sol = z3.Solver()
    sol.set("timeout", 120000)
    sol.add(z3.InRe(s, z3.Plus(anyc)), z3.Length(s) <= bound)
    sol.add(z3.InRe(s, live_re) != z3.InRe(s, spec_re))
    r = str(sol.check())
    rec = {"name": "c05.reserved-language[len<=%d]" % bound, "time_s": round(time.perf_counter() - t0, 2),
           "solver": "z3 %s (seq/re theory)" % z3.get_version_string(),
           "obligation": "forall s in [a-z0-9_]{1,%d}: live patterns match s  <=>  Specification list matches s" % bound}
    if r == "unsat":
        rec["status"] = "discharged"
    elif r == "sat":
        w = sol.model()[s].as_string()
        # replay against the real function
        try:
            _name.check_name(w)
            real_ok = True
        except _name.InvalidNameError:
            real_ok = False
        rec["status"] = "violated" if real_ok != spec_name_ok(w) else "inconclusive: model %r does not reproduce" % w
        rec["model"] = {"name": w, "real accepts": real_ok, "spec accepts": spec_name_ok(w)}
    else:
        rec["status"] = "inconclusive: %s" % r
    out.append(rec)
    return out


# ------------------------------------------------------------------------------------------------------------------


def conditions(tier: str, seed: int) -> typing.List[Cond]:
    import random

    rnd = random.Random(seed)
    thorough = tier == "thorough"
    out = []  # type: typing.List[Cond]
    for kind in ("struct", "union"):
        for via in ("ctor", "text"):
            out.append(Cond(PROP, "c05.version", make_version, {"kind": kind, "via": via}, {"major": int, "minor": int},
                            assumptions=["major, minor: unbounded integers"], fmtstub=True,
                            witness={"major": 255, "minor": 0}, budget=120.0, need_exhaust=True))
    for service in (False, True):
        for root in ("uavcan", "cyphal", "acme"):
            for allow in (True, False):
                for via in ("ctor", "text", "dep"):
                    if via == "ctor" and not allow:
                        continue
                    if via == "dep" and service:
                        continue
                    out.append(Cond(PROP, "c05.portid", make_portid, {"service": service, "root": root, "allow": allow, "via": via},
                                    {"p": int}, assumptions=["port-ID p: unbounded integer"], fmtstub=True,
                                    witness={"p": 7200 if not service else 400}, budget=120.0, need_exhaust=True))
    for form in ("fixed", "incl", "excl"):
        for elem in (("bool", "uint8", "ns.Leaf.1.0") if thorough else ("bool", "uint8")):
            out.append(Cond(PROP, "c05.capacity", make_capacity, {"form": form, "elem": elem}, {"a": int},
                            assumptions=["capacity a in [-2**70, 2**62]"], fmtstub=True, witness={"a": 1}, budget=240.0,
                            need_exhaust=True))
    for body, need, union in ([["uint8 x", "uint16[<=2] y"], 48, False], [["uint3 x", "ns.Leaf.1.0 y"], 16, False],
                              [["uint8 x", "uint32 y"], 40, True], [[], 0, False]):
        out.append(Cond(PROP, "c05.extent", make_extent, {"body": body, "need": need, "union": union}, {"a": int},
                        assumptions=["extent a in [-2**70, 2**70]"], fmtstub=True, witness={"a": 64}, budget=240.0,
                        need_exhaust=True))
    out.append(Cond(PROP, "c05.extent-values", make_extent_values, {}, {"i": int}, kind="choice",
                    assumptions=["%d extent operands: integers, fractions, reals, non-numbers, computed values" % len(EXTENT_VALUES)],
                    witness={"i": 0}, budget=120.0, need_exhaust=True))
    out.append(Cond(PROP, "c05.width", make_width, {}, {"k": int, "w": int}, kind="choice",
                    assumptions=["10 type keywords x widths 0..70"], witness={"k": 0, "w": 8}, budget=600.0,
                    need_exhaust=True))
    for n in ([0, 1, 2, 3] if thorough else [0, 1, 2]):
        exhaust = n <= (2 if thorough else 1)
        budget = {0: 30.0, 1: 120.0, 2: 900.0 if thorough else 60.0, 3: 900.0}[n]
        out.append(Cond(PROP, "c05.name-symbolic", make_name_symbolic, {"n": n}, {"s": str},
                        assumptions=["name: every str of length %d" % n], witness={"s": "ab_"[:n]},
                        budget=budget, path_timeout=60.0, need_exhaust=exhaust, fmtstub=True))
    for place in ("attribute", "constant", "short-name", "namespace", "root-namespace"):
        out.append(Cond(PROP, "c05.name-words", make_name_words, {"place": place}, {"i": int, "mask": int}, kind="choice",
                        assumptions=["22 reserved words + 42 family members / near misses x 16 letter-case patterns"],
                        witness={"i": 0, "mask": 5}, budget=900.0, need_exhaust=True))
    # structure
    for kind in SKELETONS:
        for service in ("message", "request", "response"):
            out.append(Cond(PROP, "c05.structure", make_structure, {"kind": kind, "service": service, "v1": -1, "pairs": True},
                            {"pos": int, "second": int}, kind="choice",
                            assumptions=["valid skeleton x (one violation | one benign edit) at 4 positions"],
                            witness={"pos": 0, "second": 0}, budget=900.0, need_exhaust=True))
            cands = [i for i, v in enumerate(VIOLATIONS) if _applies(v, kind)]
            firsts = cands if thorough else rnd.sample(cands, 4)
            for v1 in firsts:
                out.append(Cond(PROP, "c05.structure", make_structure, {"kind": kind, "service": service, "v1": v1, "pairs": True},
                                {"pos": int, "second": int}, kind="choice",
                                assumptions=["violation %s + (second violation | benign edit) at 4 positions" % VIOLATIONS[v1][0]],
                                witness={"pos": 1, "second": 0}, budget=900.0, need_exhaust=True))
    out.append(Cond(PROP, "c05.sections", make_section_rules, {}, {"i": int}, kind="choice",
                    assumptions=["17 service-level placement cases"], witness={"i": 0}, budget=120.0, need_exhaust=True))
    return out


def extra_evidence(tier: str) -> typing.Dict[str, typing.Any]:
    return {
        "bounds": {"violations": [v[0] for v in VIOLATIONS], "skeletons": sorted(SKELETONS),
                   "symbolic": "version, port-ID (unbounded), capacity [-2**70, 2**62], extent [-2**70, 2**70], names of "
                               "length <= 2 (quick) / 3 (thorough)",
                   "lemma": "reserved-name language equivalence over [a-z0-9_]{1,12|24}"},
        "outside": ["more than two simultaneous violations", "names longer than 3 symbolic characters other than through "
                    "the regular-language lemma and the word list"],
    }
