"""
C03 - the model mirrors the source text, independent of formatting.
Real code driven: grammar, _ParseTreeProcessor (statement visitors, comment queue/flush), DataTypeBuilder (attribute
queue, directives, finalize), DataSchemaBuilder, DSDLDefinition.read, __str__ of types/attributes - on in-memory
definitions.  A definition is generated from a sequence of line EVENTS; the oracle computes the expected model from
the event list (never from the text), all formatting variants of the text must give that model, and the model rendered
back to canonical DSDL must read back equal.
"""

from __future__ import annotations

import typing

from ..symx import Cond, pick
from .. import textio, model

PROP = "C03"

# event kinds ------------------------------------------------------------------------------------------------------
E_FIELD, E_ARRAY, E_CONST, E_PAD, E_DOCFIELD, E_BLANK, E_DETACHED, E_DIRECTIVE = range(8)
NK = 8


class Section:
    """Expected content of one schema (message, request or response)."""

    def __init__(self) -> None:
        self.fields = []  # type: typing.List[typing.Tuple[str, str, str]]  # (type, name, doc); padding has name ""
        self.constants = []  # type: typing.List[typing.Tuple[str, str, str, str]]  # (type, name, value, doc)
        self.header = ""


def _events_to_lines(events: typing.Sequence[int], tag: str, sec: Section, values: typing.Mapping[str, str]) -> typing.List[typing.List[str]]:
    """
    Returns the lines as TOKEN LISTS (joined later with the variant's separator) and fills `sec` with the expected
    model.  A token starting with '#' is a comment (separated from the statement by the variant's gap).
    """
    lines = []  # type: typing.List[typing.List[str]]
    for i, e in enumerate(events):
        n = "%s%d" % (tag, i)
        if e == E_FIELD:
            lines.append(["uint8", "f" + n])
            sec.fields.append(("saturated uint8", "f" + n, ""))
        elif e == E_ARRAY:
            cap = values.get("cap", "3")
            lines.append(["truncated", "uint16[<=%s]" % cap, "g" + n])
            sec.fields.append(("truncated uint16[<=%s]" % cap, "g" + n, ""))
        elif e == E_CONST:
            v = values.get("const", "-7")
            lines.append(["int64", "K" + n.upper(), "=", v])
            sec.constants.append(("saturated int64", "K" + n.upper(), v, ""))
        elif e == E_PAD:
            lines.append(["void3"])
            sec.fields.append(("void3", "", ""))
        elif e == E_DOCFIELD:
            lines.append(["bool", "h" + n, "# trailing " + n])
            lines.append(["#second line"])
            lines.append(["#"])
            lines.append(["#  indented"])
            sec.fields.append(("bool", "h" + n, "trailing %s\nsecond line\n\n indented" % n))
        elif e == E_BLANK:
            lines.append([])
        elif e == E_DETACHED:
            lines.append([])
            lines.append(["# detached comment, belongs to nothing"])
        elif e == E_DIRECTIVE:
            lines.append(["@assert", "1", "+", "1", "==", "2", "# comment on a directive"])
    return lines


def _valid(events: typing.Sequence[int], union: bool) -> bool:
    nfields = sum(1 for e in events if e in (E_FIELD, E_ARRAY, E_DOCFIELD))
    if union:
        return nfields >= 2 and E_PAD not in events
    return True


def build_definition(events: typing.Sequence[int], service: bool, union: bool, deprecated: bool, seal: str, header: bool,
                     values: typing.Mapping[str, str]) -> typing.Tuple[typing.List[typing.List[str]], typing.List[Section]]:
    sections = []  # type: typing.List[Section]
    lines = []  # type: typing.List[typing.List[str]]
    for si in range(2 if service else 1):
        sec = Section()
        tag = "q" if si == 0 else "r"
        if si == 1:
            lines.append(["---"])
        if header:
            lines.append(["# Header of section %d" % si])
            lines.append(["#with a second line"])
            sec.header = "Header of section %d\nwith a second line" % si
        if deprecated and si == 0:
            lines.append(["@deprecated"])
        if union:
            lines.append(["@union"])
        if seal == "sealed-first":
            lines.append(["@sealed"])
        lines += _events_to_lines(events, tag, sec, values)
        if seal == "sealed-last":
            lines.append(["@sealed"])
        elif seal == "extent":
            lines.append(["@extent", values.get("extent", "1024")])
        sections.append(sec)
    return lines, sections


# formatting variants ------------------------------------------------------------------------------------------------
VARIANTS = ["lf", "lf-nofinal", "crlf", "crlf-nofinal", "wide", "tabs-nofinal", "extra"]


def render(lines: typing.Sequence[typing.Sequence[str]], variant: str) -> str:
    eol = "\r\n" if variant.startswith("crlf") else "\n"
    sep = {"wide": "  ", "tabs-nofinal": "\t"}.get(variant, " ")
    out = []
    for toks in lines:
        stmt = [t for t in toks if not t.startswith("#")]
        com = [t for t in toks if t.startswith("#")]
        s = sep.join(stmt)
        if variant in ("wide", "tabs-nofinal") and s and not com:
            s += " \t " if variant == "wide" else "  "
        if com:
            s += (sep if s else "") + com[0]
        out.append(s)
    if variant == "extra":
        # blank lines and detached comments where they cannot attach to anything
        out2 = []
        for i, s in enumerate(out):
            out2.append(s)
            nxt = out[i + 1] if i + 1 < len(out) else None
            if s == "" and (nxt is None or not nxt.startswith("#")):
                out2 += ["", "# an extra detached comment", ""]
        out = out2 + ["", "# trailing remark after a blank line"]
    text = eol.join(out)
    if not variant.endswith("nofinal"):
        text += eol
    return text


# model extraction ---------------------------------------------------------------------------------------------------


def _section_of(t: typing.Any) -> typing.Tuple[typing.Any, typing.Any, typing.Any]:
    import pydsdl

    fields = [(str(f.data_type), f.name, f.doc) for f in t.fields]
    consts = [(str(c.data_type), c.name, str(c.value), c.doc) for c in t.constants]
    order = []
    for a in t.attributes:
        order.append(("c" if isinstance(a, pydsdl.Constant) else "f") + a.name)
    return fields, consts, order


def check_model(t: typing.Any, sections: typing.Sequence[Section], service: bool, union: bool, deprecated: bool,
                seal: str, extent: typing.Optional[int]) -> typing.Any:
    import pydsdl

    if service != isinstance(t, pydsdl.ServiceType):
        return "kind: service=%s" % isinstance(t, pydsdl.ServiceType)
    parts = [t.request_type, t.response_type] if service else [t]
    if t.deprecated != deprecated:
        return "deprecated flag %s" % t.deprecated
    for part, sec in zip(parts, sections):
        if part.deprecated != deprecated:
            return "deprecated flag of a section"
        if isinstance(part.inner_type, pydsdl.UnionType) != union:
            return "union flag"
        if (seal == "extent") != isinstance(part, pydsdl.DelimitedType):
            return "sealing: %s read as %s" % (seal, type(part).__name__)
        if seal == "extent" and extent is not None and part.extent != extent:
            return "extent %s, want %s" % (part.extent, extent)
        if part.doc != sec.header:
            return "header doc %r, want %r" % (part.doc, sec.header)
        fields, consts, order = _section_of(part)
        if fields != sec.fields:
            return "fields %r, want %r" % (fields, sec.fields)
        if consts != sec.constants:
            return "constants %r, want %r" % (consts, sec.constants)
        if order != ["f" + f[1] for f in sec.fields] + ["c" + c[1] for c in sec.constants]:
            return "attribute order %r" % order
        if service and not part.has_parent_service:
            return "has_parent_service"
    return True


def canonical(t: typing.Any) -> str:
    """Renders a model back to DSDL (the harness's printer: str(attribute), docs as comment lines after it)."""
    import pydsdl

    def section(p: typing.Any, first: bool) -> typing.List[str]:
        out = []
        if p.doc:
            out += [("# " + x) if x else "#" for x in p.doc.split("\n")]
        else:
            out += [""]  # keeps a later comment from becoming the header
        if first and p.deprecated:
            out.append("@deprecated")
        if isinstance(p.inner_type, pydsdl.UnionType):
            out.append("@union")
        for a in p.attributes:
            out.append(str(a))
            if a.doc:
                out += [("# " + x) if x else "#" for x in a.doc.split("\n")]
            out.append("")
        out.append("@extent %d" % p.extent if isinstance(p, pydsdl.DelimitedType) else "@sealed")
        return out

    if isinstance(t, pydsdl.ServiceType):
        lines = section(t.request_type, True) + ["---"] + section(t.response_type, False)
    else:
        lines = section(t, True)
    return "\n".join(lines) + "\n"


def check_text(events: typing.List[int], service: bool, union: bool, deprecated: bool, seal: str, header: bool,
               variants: typing.Sequence[str]) -> typing.Any:
    import pydsdl

    lines, sections = build_definition(events, service, union, deprecated, seal, header, {})
    base = None
    for v in variants:
        text = render(lines, v)
        try:
            t, _ = textio.read_text(text, full_name="ns.T")
        except pydsdl.InvalidDefinitionError as ex:
            return "variant %s rejected: %s %r" % (v, type(ex).__name__, text)
        r = check_model(t, sections, service, union, deprecated, seal, 1024)
        if r is not True:
            return "variant %s: %s; text %r" % (v, r, text)
        s = model.summary(t)
        if base is None:
            base = s
        elif s != base:
            return "variant %s gives a different model; text %r" % (v, text)
    # round trip through canonical DSDL
    t, _ = textio.read_text(render(lines, "lf"), full_name="ns.T")
    again, _ = textio.read_text(canonical(t), full_name="ns.T")
    if model.summary(again) != model.summary(t):
        return "canonical rendering reads back differently: %r" % canonical(t)
    if again != t or hash(again) != hash(t):
        return "canonical rendering reads back as an unequal type"
    return True


def make_lines(service: bool, union: bool, deprecated: bool, seal: str, header: bool, more: int,
               variants: typing.List[str], prefix: typing.List[int]):
    """The first events are fixed by `prefix` (sharding); 0..more further events are choice variables."""

    def h(n: int, e1: int, e2: int) -> typing.Any:
        k = pick(n, 0, more)
        if k is None:
            return None
        ev = list(prefix)
        for e in (e1, e2)[:k]:
            c = pick(e, 0, NK - 1)
            if c is None:
                return None
            ev.append(c)
        for e in (e1, e2)[k:]:
            if e != 0:
                return None
        if not _valid(ev, union):
            return True  # outside the generator's valid region (union arity / padding): nothing to assert
        return textio.native(check_text, ev, service, union, deprecated, seal, header, variants)

    return h


# symbolic values ------------------------------------------------------------------------------------------------------


def make_values(events: typing.List[int], service: bool, union: bool, seal: str, variant: str):
    """Constant value, array capacity and extent are symbolic (identifier injection); the model must carry them."""
    lines, sections = build_definition(events, service, union, False, seal, True,
                                       {"const": "a", "cap": "b", "extent": "c * 8"})
    text = render(lines, variant)
    nsec = len(sections)

    def h(a: int, b: int, c: int) -> typing.Any:
        import pydsdl
        from pydsdl import _expression as E

        if not (-(2 ** 63) <= a < 2 ** 63 and 1 <= b <= 70000):
            return None
        if not 0 <= c <= 2 ** 24:
            return None
        env = {"a": E.Rational(a), "b": E.Rational(b), "c": E.Rational(c)}
        try:
            t, _ = textio.read_text(text, env, full_name="ns.T")
        except pydsdl.InvalidDefinitionError as ex:
            if seal == "extent" and _extent_too_small(events, union, b, c):
                return True
            return "rejected: %s" % type(ex).__name__
        parts = [t.request_type, t.response_type] if nsec == 2 else [t]
        for part, sec in zip(parts, sections):
            if len(part.fields) != len(sec.fields) or len(part.constants) != len(sec.constants):
                return "attribute count"
            for f, (ty, name, doc) in zip(part.fields, sec.fields):
                if f.name != name or f.doc != doc:
                    return "field %r/%r" % (f.name, f.doc)
                if isinstance(f.data_type, pydsdl.VariableLengthArrayType):
                    if f.data_type.capacity != b or str(f.data_type.element_type) != "truncated uint16":
                        return "capacity"
                elif str(f.data_type) != ty:
                    return "field type"
            for k, (ty, name, _v, doc) in zip(part.constants, sec.constants):
                if k.name != name or k.doc != doc or str(k.data_type) != ty:
                    return "constant"
                if k.value.native_value != a:
                    return "constant value"
            if seal == "extent":
                if part.extent != c * 8:
                    return "extent"
                if _extent_too_small(events, union, b, c):
                    return "extent smaller than the longest representation was accepted"
        return True

    return h


def _max_bits(events: typing.Sequence[int], union: bool, cap: typing.Any) -> typing.Any:
    sizes = []
    for e in events:
        if e == E_FIELD:
            sizes.append((8, 1))
        elif e == E_ARRAY:
            # prefix width
            w = 8 if cap <= 255 else 16 if cap <= 65535 else 32 if cap <= 2 ** 32 - 1 else 64
            sizes.append((w + 16 * cap, 1))
        elif e == E_PAD:
            sizes.append((3, 1))
        elif e == E_DOCFIELD:
            sizes.append((1, 1))
    if union:
        m = 8 + max(s for s, _ in sizes)
    else:
        m = sum(s for s, _ in sizes)
    return -((-m) // 8) * 8


def _extent_too_small(events: typing.Sequence[int], union: bool, cap: typing.Any, c: typing.Any) -> bool:
    return bool(c * 8 < _max_bits(events, union, cap))


def make_section_scope(variant: str):
    """
    Constants are scoped to their section: a service declares the SAME constant names in both sections with different
    (symbolic) values and refers to them in later statements of each section.
    """
    text = ("uint8 CAP = a\nuint8[<=CAP] x\nuint16 DOUBLE = CAP * 2\n@assert CAP == a\n@sealed\n"
            "---\n"
            "uint8 CAP = b\nuint8[<=CAP] y\nuint16 DOUBLE = CAP * 2 + 1\n@assert CAP == b\n@sealed\n")
    if variant == "response-only-use":
        text = ("uint8 CAP = a\nuint8 x\n@sealed\n---\nuint8 CAP = b\nuint8[<=CAP] y\nuint16 DOUBLE = CAP * 2 + 1\n@sealed\n")
    if variant == "crlf":
        text = text.replace("\n", "\r\n")

    def h(a: int, b: int) -> typing.Any:
        import pydsdl
        from pydsdl import _expression as E

        if not (1 <= a <= 100 and 1 <= b <= 100):
            return None
        try:
            t, _ = textio.read_text(text, {"a": E.Rational(a), "b": E.Rational(b)}, full_name="ns.T")
        except pydsdl.InvalidDefinitionError as ex:
            return "rejected: %s" % type(ex).__name__
        rq, rs = t.request_type, t.response_type
        if rq.constants[0].value.native_value != a or rs.constants[0].value.native_value != b:
            return "constant CAP"
        if variant != "response-only-use":
            if rq.fields[0].data_type.capacity != a:
                return "request array capacity is not the request's CAP"
            if rq.constants[1].value.native_value != 2 * a:
                return "request DOUBLE"
        if rs.fields[0].data_type.capacity != b:
            return "response array capacity is not the response's CAP"
        if rs.constants[1].value.native_value != 2 * b + 1:
            return "response DOUBLE is not computed from the response's CAP"
        return True

    return h


CONST_TYPES = ["float64", "float32", "float16", "int16", "uint8", "truncated uint8"]
CONST_FORMS = ["%d / %d", "%d / %d + 2 ** 60", "%d * %d", "(%d / %d) * 1e-9", "%d.12345678901234567890123456789 / %d"]


def make_const_roundtrip(ti: int):
    """
    str(constant) is canonical DSDL: the rendering of a definition holding one constant reads back as an equal model
    with exactly the same value (a rational: 1 / 3 and 2 ** 60 + 1 / 7 are not doubles).
    """
    def concrete(fi: int, p: int, q: int) -> typing.Any:
        import pydsdl

        ty, form = CONST_TYPES[ti], CONST_FORMS[fi]
        text = "%s K = %s\nuint8 x\n@sealed\n" % (ty, form % (p, q))
        try:
            t, _ = textio.read_text(text, full_name="ns.T")
        except pydsdl.InvalidDefinitionError:
            return True  # not every value suits every type; which ones do is the subject of C05 / C12
        k = t.constants[0]
        try:
            again, _ = textio.read_text(canonical(t), full_name="ns.T")
        except pydsdl.InvalidDefinitionError as ex:
            return "rendering %r of %r is rejected: %s" % (str(k), text, type(ex).__name__)
        k2 = again.constants[0]
        if k2.value.native_value != k.value.native_value or type(k2.value) is not type(k.value):
            return "rendering %r of %r reads back as %r, not %r" % (str(k), text, k2.value.native_value, k.value.native_value)
        if again != t or hash(again) != hash(t) or model.summary(again) != model.summary(t):
            return "rendering of %r reads back as an unequal model" % text
        return True

    def h(fi: int, p: int, q: int) -> typing.Any:
        b, c, d = pick(fi, 0, len(CONST_FORMS) - 1), pick(p, -3, 12), pick(q, 1, 9)
        if b is None or c is None or d is None:
            return None
        return textio.native(concrete, b, c, d)

    return h


# ------------------------------------------------------------------------------------------------------------------


def key_c03(scaffold: typing.Dict[str, typing.Any], args: typing.Dict[str, typing.Any], detail: str) -> str:
    return "C03:%s" % detail[:50]


def conditions(tier: str, seed: int) -> typing.List[Cond]:
    import random

    rnd = random.Random(seed)
    thorough = tier == "thorough"
    out = []  # type: typing.List[Cond]
    all_combos = []
    for service in (False, True):
        for union in (False, True):
            for seal in ("sealed-first", "sealed-last", "extent"):
                combos = [(False, True), (True, False)] if thorough else [rnd.choice([(False, True), (True, False), (True, True), (False, False)])]
                for deprecated, header in combos:
                    all_combos.append((service, union, seal, deprecated, header))
    deep = all_combos if thorough else rnd.sample(all_combos, 2)
    for combo in all_combos:
        service, union, seal, deprecated, header = combo
        vs = VARIANTS if thorough else ["lf"] + sorted(rnd.sample(VARIANTS[1:], 3))
        prefixes = [[]] + [[a] for a in range(NK)]  # type: typing.List[typing.List[int]]
        more = 1 if not thorough else 2
        if combo in deep:
            prefixes = [[]] + [[a] for a in range(NK)] + [[a, b] for a in range(NK) for b in range(NK)]
            more = 2 if thorough else 2
        for prefix in prefixes:
            if not prefix and more > 0 and prefixes != [[]]:
                m = 0
            else:
                m = more
            out.append(Cond(PROP, "c03.lines", make_lines,
                            {"service": service, "union": union, "deprecated": deprecated, "seal": seal,
                             "header": header, "more": m, "variants": vs, "prefix": prefix},
                            {"n": int, "e1": int, "e2": int}, kind="choice",
                            assumptions=["line events per section: the fixed prefix + 0..%d more, each one of: field, array "
                                         "field, constant, padding, documented field (trailing + 3 comment lines), blank, "
                                         "detached comment, directive with comment; every text in %d formatting variants "
                                         "(LF/CRLF x final newline, wide blanks + trailing blanks, tabs, extra blank lines "
                                         "and detached comments); canonical round trip" % (m, len(vs))],
                            witness=None, budget=1800.0, need_exhaust=True, key="key_c03"))
    for variant in ("both", "response-only-use", "crlf"):
        out.append(Cond(PROP, "c03.section-scope", make_section_scope, {"variant": variant}, {"a": int, "b": int},
                        assumptions=["constant values a, b in 1..100 (symbolic), same constant names in request and response"],
                        fmtstub=True, witness={"a": 3, "b": 5}, budget=240.0, need_exhaust=True, key="key_c03"))
    for ti in range(len(CONST_TYPES)):
        out.append(Cond(PROP, "c03.const-roundtrip", make_const_roundtrip, {"ti": ti}, {"fi": int, "p": int, "q": int},
                        kind="choice",
                        assumptions=["one %s constant x %d value forms over p in -3..12, q in 1..9 (non-dyadic fractions, "
                                     "beyond 2**53, beyond 17 significant digits, tiny magnitudes), rendered with str() "
                                     "and read back" % (CONST_TYPES[ti], len(CONST_FORMS))],
                        witness={"fi": 0, "p": 1, "q": 3}, budget=900.0, need_exhaust=True, key="key_c03"))
    seqs = [[E_CONST, E_ARRAY, E_FIELD], [E_ARRAY, E_DOCFIELD, E_CONST], [E_FIELD, E_CONST, E_BLANK, E_ARRAY],
            [E_DOCFIELD, E_ARRAY, E_DETACHED, E_CONST], [E_PAD, E_ARRAY, E_CONST]]
    for ev in (seqs if thorough else seqs[:2] + [rnd.choice(seqs[2:])]):
        for service in (False, True):
            for seal in ("sealed-last", "extent"):
                if seal == "extent" and not thorough and (service or ev != seqs[0]):
                    continue  # symbolic extents cost ~80 s per condition here; they are the subject of C02
                union = E_PAD not in ev and rnd.random() < 0.4
                variant = rnd.choice(["lf-nofinal", "crlf", "tabs-nofinal", "wide"])
                out.append(Cond(PROP, "c03.values", make_values,
                                {"events": ev, "service": service, "union": union, "seal": seal, "variant": variant},
                                {"a": int, "b": int, "c": int},
                                assumptions=["constant a: every int64; capacity b in [1, 70000]; extent 8*c, c in [0, 2**24]"],
                                fmtstub=True, witness={"a": -5, "b": 300, "c": 4000}, budget=240.0, need_exhaust=True,
                                key="key_c03"))
    return out


def extra_evidence(tier: str) -> typing.Dict[str, typing.Any]:
    return {
        "bounds": {"events per section": 3 if tier != "thorough" else 4, "event kinds": 8, "formatting variants": VARIANTS,
                   "symbolic": "constant value (int64), array capacity (<= 70000), extent (<= 2**27)"},
        "outside": ["more than 4 line events per section; nested composite fields (covered under C09); non-ASCII comments"],
    }
