"""
C12 - constants are always compliant with their declared type.
Real code driven: pydsdl Constant.__init__, Signed/Unsigned/Float inclusive_value_range, expression primitives.
"""

from __future__ import annotations

import fractions
import typing

from ..symx import Cond, pick

PROP = "C12"
BOUND = 2**70


def _mk_type(kind: str, width: int, cast: str) -> typing.Any:
    import pydsdl

    cm = pydsdl.PrimitiveType.CastMode.SATURATED if cast == "saturated" else pydsdl.PrimitiveType.CastMode.TRUNCATED
    if kind == "uint":
        return pydsdl.UnsignedIntegerType(width, cm)
    if kind == "int":
        return pydsdl.SignedIntegerType(width, cm)
    if kind == "float":
        return pydsdl.FloatType(width, cm)
    if kind == "bool":
        return pydsdl.BooleanType()
    if kind == "byte":
        return pydsdl.ByteType()
    if kind == "utf8":
        return pydsdl.UTF8Type()
    raise ValueError(kind)


def _int_range(kind: str, width: int) -> typing.Tuple[int, int]:
    """Written from the Specification: unsigned [0, 2**w - 1]; two's complement signed [-2**(w-1), 2**(w-1) - 1]."""
    if kind == "int":
        return -(2 ** (width - 1)), 2 ** (width - 1) - 1
    return 0, 2**width - 1


def _float_max(width: int) -> fractions.Fraction:
    """Largest finite IEEE 754 value: (2 - 2**-(p-1)) * 2**emax."""
    p, emax = {16: (11, 15), 32: (24, 127), 64: (53, 1023)}[width]
    return (fractions.Fraction(2) - fractions.Fraction(1, 2 ** (p - 1))) * 2**emax


def make_int(kind: str, width: int, cast: str):
    import pydsdl
    from pydsdl import _expression as E

    lo, hi = _int_range(kind, width)

    def h(v: int) -> typing.Any:
        t = _mk_type(kind, width, cast)
        try:
            c = pydsdl.Constant(t, "X", E.Rational(v))
        except pydsdl.InvalidDefinitionError:
            c = None
        want = lo <= v <= hi
        if (c is not None) != want:
            return "accepted=%r but lo<=v<=hi is %r" % (c is not None, want)
        if c is not None:
            nv = c.value.native_value
            if not (isinstance(c.value, E.Rational) and nv.denominator == 1 and nv.numerator == v):
                return "stored value differs from the initializer"
            if c.data_type is not t or c.name != "X":
                return "type/name not preserved"
            r = t.inclusive_value_range
            if not (r.min == lo and r.max == hi):
                return "inclusive_value_range"
        return True

    return h


def make_frac(kind: str, width: int, den: int):
    """Non-integer rationals n/den: rejected by integer types unless integral; floats: range check only."""
    import pydsdl
    from pydsdl import _expression as E

    lo, hi = (_int_range(kind, width)) if kind != "float" else (-_float_max(width), _float_max(width))

    def h(n: int) -> typing.Any:
        t = _mk_type(kind, width, "saturated")
        v = fractions.Fraction(n, den)
        try:
            c = pydsdl.Constant(t, "X", E.Rational(v))
        except pydsdl.InvalidDefinitionError:
            c = None
        inrange = lo * den <= n <= hi * den
        want = inrange and (kind == "float" or n % den == 0)
        if (c is not None) != want:
            return "accepted=%r, want %r" % (c is not None, want)
        if c is not None and not (c.value.native_value * den == n):
            return "stored value was rounded or converted"
        return True

    return h


def make_float_edge(width: int, den: int, sign: int):
    """v = sign * (largest finite + n/den) for symbolic n around 0: accepted iff |v| <= largest finite; value stored exactly."""
    import pydsdl
    from pydsdl import _expression as E

    mx = _float_max(width)

    def h(n: int) -> typing.Any:
        t = _mk_type("float", width, "saturated")
        v = sign * (mx + fractions.Fraction(n, den))
        try:
            c = pydsdl.Constant(t, "X", E.Rational(v))
        except pydsdl.InvalidDefinitionError:
            c = None
        want = -mx * den <= sign * (mx * den + n) <= mx * den
        if (c is not None) != want:
            return "accepted=%r, want %r" % (c is not None, want)
        if c is not None and c.value.native_value != v:
            return "stored value was rounded"
        r = t.inclusive_value_range
        if r.max != mx or r.min != -mx:
            return "inclusive_value_range is not +-largest finite"
        return True

    return h


def make_string(kind: str, width: int, cast: str, length: int):
    """String initializers: accepted only for uint8 and a single ASCII character, stored as its code point."""
    import pydsdl
    from pydsdl import _expression as E

    def h(s: str) -> typing.Any:
        if len(s) != length:
            return None
        t = _mk_type(kind, width, cast)
        try:
            c = pydsdl.Constant(t, "X", E.String(s))
        except pydsdl.InvalidDefinitionError:
            c = None
        ok_type = kind in ("uint", "byte", "utf8") and width == 8
        want = ok_type and length == 1 and ord(s[0]) < 128
        if (c is not None) != want:
            return "string %r accepted=%r want %r" % (s, c is not None, want)
        if c is not None:
            if not isinstance(c.value, E.Rational) or c.value.native_value != ord(s[0]):
                return "not stored as the code point"
        return True

    return h


STRING_LIST = ["", "a", "\x00", "\x7f", "\x80", "\xff", "\u0100", "\u0451", "ab", "a\u0301", "a\ud800", "\ud800a", "\ud800",
               "\udfff", "a\udfff\udc00", "\ud83d\ude00", "\U0001f600", "a\x00", "\x00\x00", " ", "\n", "'", "\\"]


def make_string_list(kind: str, width: int):
    """
    Concrete initializer strings (str.encode is a C boundary: the engine realises a symbolic str there, so lone
    surrogates and other code points that encode specially are listed explicitly): accepted only for uint8-like types
    and exactly one ASCII character, stored as its code point.
    """
    import pydsdl
    from pydsdl import _expression as E

    def concrete(i: int) -> typing.Any:
        s = STRING_LIST[i]
        t = _mk_type(kind, width, "saturated")
        try:
            c = pydsdl.Constant(t, "X", E.String(s))
        except pydsdl.InvalidDefinitionError:
            c = None
        want = kind in ("uint", "byte", "utf8") and width == 8 and len(s) == 1 and ord(s) < 128
        if (c is not None) != want:
            return "string %r as %s%d constant: accepted=%r, want %r" % (s, kind, width, c is not None, want)
        if c is not None and c.value.native_value != ord(s):
            return "not stored as the code point"
        return True

    def h(i: int) -> typing.Any:
        a = pick(i, 0, len(STRING_LIST) - 1)
        if a is None:
            return None
        from .. import textio

        return textio.native(concrete, a)

    return h


def make_kinds(kind: str, width: int):
    """Value kind vs type kind (choice over the value kinds)."""
    import pydsdl
    from pydsdl import _expression as E

    def h(which: int, b: bool, v: int) -> typing.Any:
        w = pick(which, 0, 5)
        if w is None or not -3 <= v <= 3:
            return None
        if kind in ("uint", "int", "float", "bool"):
            t = _mk_type(kind, width, "saturated")
        elif kind == "void":
            t = pydsdl.VoidType(width)
        elif kind == "farray":
            t = pydsdl.FixedLengthArrayType(_mk_type("uint", 8, "saturated"), 2)
        elif kind == "varray":
            t = pydsdl.VariableLengthArrayType(_mk_type("uint", 8, "saturated"), 2)
        else:
            raise ValueError(kind)
        value = [
            E.Boolean(b),
            E.Rational(v),
            E.String("a"),
            E.Set([E.Rational(v)]),
            E.Set([E.Boolean(b)]),
            t,
        ][w]
        try:
            c = pydsdl.Constant(t, "" if kind == "void" else "X", value)
        except pydsdl.InvalidDefinitionError:
            c = None
        lo, hi = _int_range(kind, width) if kind in ("uint", "int") else (-100, 100)
        if kind == "bool":
            want = w == 0
        elif kind in ("uint", "int"):
            want = (w == 1 and lo <= v <= hi) or (w == 2 and kind == "uint" and width == 8)
        elif kind == "float":
            want = w == 1
        else:
            want = False
        if (c is not None) != want:
            return "kind %s value-kind %d accepted=%r want %r" % (kind, w, c is not None, want)
        if c is not None and kind == "bool" and not (isinstance(c.value, E.Boolean) and c.value.native_value == b):
            return "boolean value not preserved"
        return True

    return h


def conditions(tier: str, seed: int) -> typing.List[Cond]:
    out = _conditions(tier, seed)
    for kind, width in (("uint", 8), ("uint", 7), ("uint", 16), ("int", 8), ("float", 16), ("bool", 1)):
        out.append(Cond(PROP, "c12.string-list", make_string_list, {"kind": kind, "width": width}, {"i": int}, kind="choice",
                        assumptions=["%d listed initializer strings incl. lone surrogates, Latin-1, combining marks" % len(STRING_LIST)],
                        witness={"i": 1}, budget=120.0, need_exhaust=True))
    return out


def _conditions(tier: str, seed: int) -> typing.List[Cond]:
    thorough = tier == "thorough"
    out = []  # type: typing.List[Cond]
    A = ["v: unbounded mathematical integer"]
    for w in range(1, 65):
        for kind, cast in (("uint", "saturated"), ("uint", "truncated"), ("int", "saturated")):
            if kind == "int" and w < 2:
                continue
            out.append(Cond(PROP, "c12.int", make_int, {"kind": kind, "width": w, "cast": cast}, {"v": int},
                            assumptions=A, witness={"v": 1}, budget=40.0, fmtstub=True))
    for kind, cast in (("byte", "truncated"), ("utf8", "truncated")):
        out.append(Cond(PROP, "c12.int", make_int, {"kind": kind, "width": 8, "cast": cast}, {"v": int},
                        assumptions=A, witness={"v": 1}, budget=40.0, fmtstub=True))
    for den in (2, 3, 5, 7, 10):
        for kind, w in [("uint", 8), ("int", 8), ("uint", 1), ("int", 33), ("uint", 64), ("float", 16), ("float", 32),
                        ("float", 64)]:
            out.append(Cond(PROP, "c12.frac", make_frac, {"kind": kind, "width": w, "den": den}, {"n": int},
                            assumptions=["value n/%d, n unbounded" % den], witness={"n": den * 3}, budget=40.0, fmtstub=True))
    # near-integers: a fractional part far below double precision must still be seen (exact rational test); the symbolic
    # engine treats float() as a real, so the deciding run for a float-based integrality test is the big concrete witness
    for den in (2 ** 60, 2 ** 53 + 1):
        for kind, w, near in [("uint", 8, 1), ("int", 16, -7), ("uint", 64, 2 ** 63), ("int", 33, 2 ** 31), ("float", 64, 3)]:
            out.append(Cond(PROP, "c12.frac", make_frac, {"kind": kind, "width": w, "den": den}, {"n": int},
                            assumptions=["value n/%d, n unbounded (witness: %d + 1/%d)" % (den, near, den)],
                            witness={"n": near * den + 1}, budget=15.0, fmtstub=True))
    for den in (2, 3, 5, 7, 10):
        for w in (16, 32, 64):
            for sign in (1, -1):
                out.append(Cond(PROP, "c12.float-edge", make_float_edge, {"width": w, "den": den, "sign": sign},
                                {"n": int}, assumptions=["value = +-(largest finite + n/%d), n unbounded" % den],
                                witness={"n": 0}, budget=40.0, fmtstub=True))
    for kind, w, cast in [("uint", 8, "saturated"), ("uint", 8, "truncated"), ("byte", 8, "truncated"),
                          ("utf8", 8, "truncated"), ("uint", 7, "saturated"), ("uint", 9, "saturated"),
                          ("int", 8, "saturated"), ("uint", 16, "saturated"), ("float", 16, "saturated"),
                          ("bool", 1, "saturated")]:
        for length in (0, 1, 2):
            if kind in ("float", "bool") and length != 1:
                continue
            wit = {"s": "a" * length}
            out.append(Cond(PROP, "c12.string", make_string, {"kind": kind, "width": w, "cast": cast, "length": length},
                            {"s": str}, assumptions=["string of exactly %d symbolic characters" % length],
                            witness=wit, budget=40.0, fmtstub=True))
    for kind, w in [("bool", 1), ("uint", 8), ("uint", 2), ("int", 2), ("float", 32), ("void", 3), ("farray", 0),
                    ("varray", 0)]:
        out.append(Cond(PROP, "c12.kinds", make_kinds, {"kind": kind, "width": w}, {"which": int, "b": bool, "v": int},
                        kind="choice", assumptions=["value kind in 0..5; |v| <= 3"],
                        witness={"which": 1, "b": True, "v": 1}, budget=40.0, fmtstub=True))
    return out


def extra_evidence(tier: str) -> typing.Dict[str, typing.Any]:
    return {
        "bounds": {"integer initializers": "unbounded", "fractions": "denominators 2, 3, 5, 7, 10; numerator unbounded",
                   "float edge": "+-(largest finite + n/den), n unbounded", "strings": "length 0..2, every character"},
        "outside": ["denominators other than 2, 3, 5, 7, 10 (a symbolic denominator makes gcd fork without bound)", "strings longer than 2"],
    }
