"""
C02 - every type's layout (lengths, alignment, extent, prefixes) is the Specification's.
Real code driven: constructors and bit_length_set / alignment_requirement / extent / length_field_type /
tag_field_type / delimiter_header_type of _primitive.py, _void.py, _array.py, _composite.py.
"""

from __future__ import annotations

import typing

from ..symx import Cond, pick
from .. import types as T
from ..oracle import layout as L

PROP = "C02"


def make_varray(elem: typing.Any):
    """VariableLengthArrayType(elem, cap) for every capacity."""
    import pydsdl

    elo, ehi = L.interval(elem, {})
    ea = L.alignment(elem)

    def h(cap: int) -> typing.Any:
        if not 1 <= cap <= 2**64 + 2**20:
            return None
        et = T.build(elem)
        try:
            t = pydsdl.VariableLengthArrayType(et, cap)
        except pydsdl.InvalidDefinitionError:
            t = None
        if (t is not None) != (cap <= 2**64 - 1):
            return "capacity accepted=%r" % (t is not None)
        if t is None:
            return True
        w = max(L.prefix_width(cap), ea)
        lt = t.length_field_type
        if not (isinstance(lt, pydsdl.UnsignedIntegerType) and lt.bit_length == w):
            return "length prefix is %r, want uint%d" % (lt, w)
        if lt.inclusive_value_range.max < cap:
            return "prefix cannot hold the capacity"
        b = t.bit_length_set
        if b.min != w:
            return "min"
        if b.max != w + ehi * cap:
            return "max"
        if t.alignment_requirement != ea:
            return "alignment"
        if not b.is_aligned_at(ea):
            return "lengths not aligned to the type's alignment"
        if b.fixed_length:
            return "fixed_length reported for a variable-length array"
        if ehi % 8 == 0 and elo % 8 == 0 and not b.is_aligned_at_byte():
            return "byte alignment lost"
        if t.capacity != cap or t.element_type is not et:
            return "parameters not preserved"
        return True

    return h


def make_farray(elem: typing.Any, d: int):
    """FixedLengthArrayType(elem, cap) for every capacity (residues mod d for fixed-size elements)."""
    import pydsdl

    elo, ehi = L.interval(elem, {})
    ea = L.alignment(elem)

    def h(cap: int) -> typing.Any:
        if not cap <= 2**64:
            return None
        et = T.build(elem)
        try:
            t = pydsdl.FixedLengthArrayType(et, cap)
        except pydsdl.InvalidDefinitionError:
            t = None
        if (t is not None) != (cap >= 1):
            return "capacity accepted=%r" % (t is not None)
        if t is None:
            return True
        b = t.bit_length_set
        if b.min != elo * cap or b.max != ehi * cap:
            return "min/max"
        if b.fixed_length != (elo == ehi):
            return "fixed_length"
        if t.alignment_requirement != ea or not b.is_aligned_at(ea):
            return "alignment"
        if elo == ehi:
            got = sorted(v for v in (b % d))
            if got != [(elo * cap) % d]:
                return "residue mod %d: %r" % (d, got)
        return True

    return h


class _Seq:
    """A sequence of field types whose len() is symbolic; iteration yields one representative (documented stub)."""

    def __init__(self, n: typing.Any, rep: typing.Any) -> None:
        self._n, self._rep = n, rep

    def __len__(self) -> typing.Any:
        return self._n

    def __iter__(self) -> typing.Any:
        return iter([self._rep])


def make_tag():
    """UnionType._compute_tag_bit_length for every number of variants 2..2**64."""
    import pydsdl

    def h(n: int) -> typing.Any:
        if not 2 <= n <= 2**64:
            return None
        got = pydsdl.UnionType._compute_tag_bit_length(_Seq(n, T.prim("u8")))  # pylint: disable=protected-access
        if got != L.tag_width(n):
            return "tag width for %d variants: %d" % (n, got)
        return True

    return h


def make_union_real(n: int, consts: int = 0):
    """A real UnionType with n variants (n is scaffolding: 2, 3, 255, 256, 257, ...) and `consts` constants."""
    import pydsdl

    def h(flag: bool) -> typing.Any:
        from pydsdl import _expression as E

        fields = [T.prim("u8") if (i % 2 == 0 or not flag) else T.prim("u16") for i in range(n)]
        cs = [pydsdl.Constant(T.prim("u16"), "K%d" % i, E.Rational(i)) for i in range(consts)]
        t = T.composite("union", fields, constants=cs)
        if t.number_of_variants != n or len(t.constants) != consts:
            return "variant / constant count"
        w = L.tag_width(n)
        if t.tag_field_type.bit_length != w or not isinstance(t.tag_field_type, pydsdl.UnsignedIntegerType):
            return "tag"
        want = {w + 8, w + 16} if flag else {w + 8}
        b = t.bit_length_set
        if b.min != min(want) or b.max != max(want):
            return "min/max"
        for d in (8, 32, 64):
            if {x for x in (b % d)} != {x % d for x in want}:
                return "residues"
        if t.extent != max(want) or t.alignment_requirement != 8:
            return "extent/alignment"
        return True

    return h


def make_shape_sym(spec: typing.Any, names: typing.List[str], hi: int):
    """Catalogue shape with symbolic capacities / extents: min, max, extent, alignment, byte alignment."""

    def h(*vals: int) -> typing.Any:
        params = dict(zip(names, vals))
        for k, v in params.items():
            if not 1 <= v <= hi:
                return None
            if k.startswith("e"):
                params[k] = 8 * v  # extents are multiples of 8
        # admissible extents only
        if not _extents_ok(spec, params):
            return None
        t = T.build(spec, params)
        lo, mx = L.interval(spec, params)
        b = t.bit_length_set
        if b.min != lo:
            return "min: %r != %r" % (b.min, lo)
        if b.max != mx:
            return "max: %r != %r" % (b.max, mx)
        if t.alignment_requirement != L.alignment(spec):
            return "alignment"
        if not b.is_aligned_at(t.alignment_requirement):
            return "a length is not a multiple of the alignment"
        if not b.is_aligned_at_byte():
            return "composite not padded to a byte"
        if t.extent != L.extent(spec, params):
            return "extent"
        return True

    return _arity(h, names)


def _extents_ok(spec: typing.Any, params: typing.Mapping[str, typing.Any]) -> bool:
    if isinstance(spec, str):
        return True
    if spec[0] == "delim":
        if not _extents_ok(spec[1], params):
            return False
        if len(spec) > 2 and spec[2] is not None:
            e = params[spec[2]] if isinstance(spec[2], str) else spec[2]
            if not e >= L.interval(spec[1], params)[1]:
                return False
        return True
    if spec[0] in ("farr", "varr"):
        return _extents_ok(spec[1], params)
    return all(_extents_ok(f, params) for f in spec[1])


def _arity(h: typing.Callable[..., typing.Any], names: typing.List[str]) -> typing.Callable[..., typing.Any]:
    src = "def w(%s):\n    return h(%s)\n" % (", ".join(names), ", ".join(names))
    ns = {"h": h}  # type: typing.Dict[str, typing.Any]
    exec(src, ns)  # pylint: disable=exec-used
    return ns["w"]  # type: ignore


def _subst(spec: typing.Any, params: typing.Mapping[str, int]) -> typing.Any:
    if isinstance(spec, str):
        return spec
    if spec[0] in ("farr", "varr"):
        return [spec[0], _subst(spec[1], params), params[spec[2]] if isinstance(spec[2], str) else spec[2]]
    if spec[0] in ("struct", "union"):
        return [spec[0], [_subst(f, params) for f in spec[1]]]
    e = spec[2] if len(spec) > 2 else None
    return ["delim", _subst(spec[1], params), params[e] if isinstance(e, str) else e]


def make_shape_exact(spec: typing.Any, names: typing.List[str], hi: int):
    """Capacities as choice variables in 1..hi: the expanded set equals O-LAYOUT's enumeration; residues too."""

    def h(*vals: int) -> typing.Any:
        params = {}
        for k, v in zip(names, vals):
            c = pick(v, 1, hi)
            if c is None:
                return None
            params[k] = 8 * c if k.startswith("e") else c
        if not _extents_ok(spec, params):
            return None
        from .. import textio

        return textio.native(body, params)  # every parameter is concrete: run the real code natively

    def body(params: typing.Dict[str, int]) -> typing.Any:
        conc = _subst(spec, params)
        t = T.build(conc)
        want = L.enumerate_set(conc)
        got = {x for x in t.bit_length_set}
        if got != want:
            return "set differs: got %r want %r" % (sorted(got), sorted(want))
        b = t.bit_length_set
        for d in (8, 16, 32, 64, 3, 7):
            if {x for x in (b % d)} != {x % d for x in want}:
                return "residues mod %d" % d
        if b.min != min(want) or b.max != max(want) or len(b) != len(want):
            return "min/max/len"
        if t.alignment_requirement != L.alignment(conc) or t.extent != L.extent(conc, {}):
            return "alignment/extent"
        if any(x % t.alignment_requirement for x in got):
            return "length not a multiple of alignment"
        # expanding / querying the container must leave its members' own sets intact (and vice versa)
        inner_spec = conc[1] if conc[0] == "delim" else conc
        if inner_spec[0] in ("struct", "union"):
            for f, fs in zip(t.inner_type.fields, inner_spec[1]):
                fw = L.enumerate_set(fs)
                fg = {x for x in f.data_type.bit_length_set}
                if fg != fw:
                    return "after the container was expanded, member %s reports %r, want %r" % (f, sorted(fg), sorted(fw))
                if {x for x in (f.data_type.bit_length_set % 32)} != {x % 32 for x in fw}:
                    return "member residues after the container was expanded"
            if {x for x in t.bit_length_set} != want:
                return "container set changed after its members were expanded"
        return True

    return _arity(h, names)


def make_family(family: str, inner: typing.Any):
    """
    Parametrised families: element width w in 1..16, capacity c in 1..3, tail width t in 1..8 (choice variables,
    executed natively): exact set, residues, min/max, alignment, extent against O-LAYOUT's enumeration.
    """
    exact = make_shape_exact  # reuse the comparison

    def spec_of(w: int, c: int, t: int) -> typing.Any:
        if family == "varr-inner-tail":
            return ["struct", [["varr", "u%d" % w, c], inner, "u%d" % t]]
        if family == "farr-inner-tail":
            return ["struct", [["farr", "u%d" % w, c], inner, "u%d" % t]]
        if family == "head-varrinner-tail":
            return ["struct", ["u%d" % w, ["varr", inner, c], "u%d" % t]]
        if family == "union":
            return ["union", [["varr", "u%d" % w, c], inner, "u%d" % t]]
        if family == "nested":
            return ["struct", [["struct", [["varr", "u%d" % w, c]]], "u%d" % t, inner]]
        raise ValueError(family)

    def h(w: int, c: int, t: int) -> typing.Any:
        cw, cc, ct = pick(w, 1, 16), pick(c, 1, 3), pick(t, 1, 8)
        if cw is None or cc is None or ct is None:
            return None
        from .. import textio

        return textio.native(lambda: exact(spec_of(cw, cc, ct), ["unused"], 1)(1))

    return h


SEQ_MEMBERS = ["bool", "u3", "u7", "u8", "u12", "u16", ["struct", ["u8"]], ["struct", ["u3"]], ["varr", "u3", 2],
               ["delim", ["struct", ["u8"]], 16], ["farr", "u5", 2]]
UNION_MEMBERS = ["u8", "u16", "u3", ["varr", "u16", 1], ["varr", "u8", 2], ["varr", "u8", 1], ["varr", "u32", 1],
                 ["varr", "u16", 2], ["struct", ["u8"]], ["farr", "u8", 2], ["varr", "u4", 4], ["struct", ["u8", "u8"]]]


def make_seq(kind: str, first: int):
    """
    Every sequence of members drawn from a list (choice variables; the first one is fixed by the scaffold): structures
    of 3..4 members, unions of 2..3 variants.  Exact set, residues, min/max, alignment, extent vs O-LAYOUT.
    """
    members = SEQ_MEMBERS if kind == "struct" else UNION_MEMBERS
    n = len(members)
    exact = make_shape_exact

    def concrete(idx: typing.List[int]) -> typing.Any:
        spec = [kind, [members[i] for i in idx]]
        return exact(spec, ["unused"], 1)(1)

    def h(k: int, i1: int, i2: int, i3: int) -> typing.Any:
        lo = 2 if kind == "struct" else 1
        kk = pick(k, lo, 3)
        if kk is None:
            return None
        idx = [first]
        for v in (i1, i2, i3)[:kk]:
            c = pick(v, 0, n - 1)
            if c is None:
                return None
            idx.append(c)
        for v in (i1, i2, i3)[kk:]:
            if v != 0:
                return None
        if kind == "union" and len(idx) > 3:
            return None
        from .. import textio

        return textio.native(concrete, idx)

    return h


def make_delimited(inner: typing.Any, other: typing.Any, r: int):
    """DelimitedType(inner, extent) for every extent = 64*q + r."""
    import pydsdl

    ilo, ihi = L.interval(inner, {})

    def h(q: int) -> typing.Any:
        if not -2 <= q <= 2**50:
            return None
        extent = 64 * q + r
        it = T.build(inner)
        try:
            t = pydsdl.DelimitedType(it, extent)
        except pydsdl.InvalidDefinitionError:
            t = None
        want = extent % 8 == 0 and extent >= ihi
        if (t is not None) != want:
            return "extent %r accepted=%r want %r" % (extent, t is not None, want)
        if t is None:
            return True
        hd = t.delimiter_header_type
        if not (isinstance(hd, pydsdl.UnsignedIntegerType) and hd.bit_length == 32):
            return "header"
        b = t.bit_length_set
        if b.min != 32 or b.max != 32 + extent or t.extent != extent or t.inner_type is not it:
            return "min/max/extent"
        if t.alignment_requirement != 8 or not b.is_aligned_at_byte():
            return "alignment"
        for d in (16, 32, 64):
            n = extent // 8  # residues of 32 + 8*j, j = 0..n
            want_r = {(32 + 8 * j) % d for j in range(d // 8)} if n >= d // 8 - 1 else None
            got = {x for x in (b % d)}
            if want_r is not None and got != want_r:
                return "residues mod %d: %r" % (d, sorted(got))
        if other is not None:
            ot = T.build(other)
            if L.interval(other, {})[1] <= extent:
                t2 = pydsdl.DelimitedType(ot, extent)
                if not (t2.bit_length_set == b and t2.bit_length_set.min == b.min and t2.bit_length_set.max == b.max):
                    return "set depends on the fields"
        return True

    return h


def make_widths(kind: str):
    """Primitive / void width as a choice variable (the constructor realises it through math.log2)."""
    import pydsdl

    def h(w: int, trunc: bool) -> typing.Any:
        c = pick(w, -1, 66)
        if c is None:
            return None
        S, TR = pydsdl.PrimitiveType.CastMode.SATURATED, pydsdl.PrimitiveType.CastMode.TRUNCATED
        cm = TR if trunc else S
        try:
            if kind == "uint":
                t = pydsdl.UnsignedIntegerType(c, cm)
            elif kind == "int":
                t = pydsdl.SignedIntegerType(c, cm)
            elif kind == "float":
                t = pydsdl.FloatType(c, cm)
            else:
                t = pydsdl.VoidType(c)
        except pydsdl.InvalidDefinitionError:
            t = None
        if kind == "uint":
            ok = 1 <= c <= 64
        elif kind == "int":
            ok = 2 <= c <= 64 and not trunc
        elif kind == "float":
            ok = c in (16, 32, 64)
        else:
            ok = 1 <= c <= 64
        if (t is not None) != ok:
            return "%s%d accepted=%r" % (kind, c, t is not None)
        if t is None:
            return True
        if {x for x in t.bit_length_set} != {c} or t.alignment_requirement != 1 or t.bit_length != c:
            return "set/alignment"
        if not t.bit_length_set.fixed_length:
            return "fixed_length"
        if kind != "void" and t.standard_bit_length != (c in (8, 16, 32, 64)):
            return "standard_bit_length"
        return True

    return h


PSHAPES = [
    (["struct", ["u3", ["varr", "u8", "c0"], "i13"]], ["c0"]),
    (["struct", ["u8", ["varr", ["struct", ["u3", "u16"]], "c0"], "bool"]], ["c0"]),
    (["union", ["u3", ["struct", ["u16", "u8"]], ["varr", "u8", "c0"]]], ["c0"]),
    (["struct", [["farr", ["delim", ["struct", ["u8"]], 16], "c0"], "u8"]], ["c0"]),
    (["struct", ["u3", ["delim", ["struct", ["u8"]], "e0"], "u8"]], ["e0"]),
    (["struct", [["varr", "bool", "c0"], ["farr", "u3", 5], "u16"]], ["c0"]),
    (["struct", [["varr", "bool", 9], ["farr", "u3", "c0"], "u16"]], ["c0"]),
    (["struct", [["varr", ["delim", ["union", ["u8", "u16"]], "e0"], 3], "bool"]], ["e0"]),
    (["delim", ["struct", [["varr", "u8", "c0"], "u16"]], None], ["c0"]),
    (["union", [["farr", "u16", "c0"], ["varr", "i13", 300]]], ["c0"]),
    (["union", [["farr", "u16", 70000], ["varr", "i13", "c0"]]], ["c0"]),
    (["struct", [["farr", ["struct", ["bool", ["varr", "u8", 2]]], "c0"]]], ["c0"]),
    (["struct", ["void3", ["varr", ["varr", "u8", 3], "c0"], "f32"]], ["c0"]),
    # variability hidden two levels down: variable array of records whose only variable part is inside a fixed array
    (["struct", [["varr", ["struct", ["u8", ["farr", ["struct", [["varr", "u8", 2]]], 2]]], "c0"]]], ["c0"]),
    (["struct", ["u3", ["varr", ["struct", [["farr", ["union", ["u8", "u16"]], "c0"], "bool"]], 2]]], ["c0"]),
]

ELEMS = ["u8", "bool", "u3", "i13", "u16", "f64", ["struct", ["u8", "u16"]], ["struct", ["u3"]],
         ["delim", ["struct", ["u8"]], 32], ["varr", "u8", 2], ["union", ["u8", "u16"]]]


def _seq_conditions(tier: str, seed: int) -> typing.List[Cond]:
    import random

    rnd = random.Random(seed + 77)
    out = []  # type: typing.List[Cond]
    firsts_s = range(len(SEQ_MEMBERS))
    _ = rnd
    for f in firsts_s:
        out.append(Cond(PROP, "c02.seq-struct", make_seq, {"kind": "struct", "first": f},
                        {"k": int, "i1": int, "i2": int, "i3": int}, kind="choice",
                        assumptions=["structures of 3..4 members, the first fixed, the others any of %d member types" % len(SEQ_MEMBERS)],
                        witness={"k": 3, "i1": 3, "i2": 6, "i3": 0}, budget=1800.0, need_exhaust=True))
    for f in range(len(UNION_MEMBERS)):
        out.append(Cond(PROP, "c02.seq-union", make_seq, {"kind": "union", "first": f},
                        {"k": int, "i1": int, "i2": int, "i3": int}, kind="choice",
                        assumptions=["unions of 2..3 variants, the first fixed, the others any of %d variant types" % len(UNION_MEMBERS)],
                        witness={"k": 1, "i1": 4, "i2": 0, "i3": 0}, budget=900.0, need_exhaust=True))
    return out


def conditions(tier: str, seed: int) -> typing.List[Cond]:
    return _conditions(tier, seed) + _seq_conditions(tier, seed)


def _conditions(tier: str, seed: int) -> typing.List[Cond]:
    thorough = tier == "thorough"
    out = []  # type: typing.List[Cond]
    for e in ELEMS if thorough else ELEMS[:7] + ELEMS[8:9]:
        out.append(Cond(PROP, "c02.varray", make_varray, {"elem": e}, {"cap": int},
                        assumptions=["1 <= cap <= 2**64 + 2**20 (so the rejection boundary is inside)"],
                        witness={"cap": 300}, fmtstub=True, budget=200.0))
        for d in (8, 64) if not thorough else (3, 8, 16, 64):
            out.append(Cond(PROP, "c02.farray", make_farray, {"elem": e, "d": d}, {"cap": int},
                            assumptions=["cap <= 2**64 (any integer below, incl. 0 and negatives)"],
                            witness={"cap": 5}, fmtstub=True, budget=200.0))
    out.append(Cond(PROP, "c02.tag", make_tag, {}, {"n": int}, assumptions=["2 <= n <= 2**64"],
                    stubs=["sequence object with symbolic len() yielding one representative field type"],
                    witness={"n": 3}, budget=120.0))
    for n in [2, 3, 255, 256, 257] + ([65535, 65536, 65537] if thorough else []):
        for consts in (2, 300):
            # constants are not variants: they must not influence the tag width (boundary: n <= 2**k < n + constants)
            out.append(Cond(PROP, "c02.union-real", make_union_real, {"n": n, "consts": consts}, {"flag": bool}, kind="choice",
                            assumptions=["union of %d variants and %d constants" % (n, consts)], witness={"flag": True}, budget=120.0))
        out.append(Cond(PROP, "c02.union-real", make_union_real, {"n": n}, {"flag": bool}, kind="choice",
                        assumptions=["n variants alternating uint8 / uint16"], witness={"flag": True}, budget=600.0))
    for spec, names in PSHAPES:
        sig = {n: int for n in names}
        out.append(Cond(PROP, "c02.shape-sym", make_shape_sym, {"spec": spec, "names": names, "hi": 2**16}, sig,
                        assumptions=["capacities in 1..2**16; extents 8*v, v in 1..2**16, >= inner extent"],
                        witness={n: 3 for n in names}, fmtstub=True, budget=300.0))
        hi = 3 if len(names) == 1 else 2
        if "300" in repr(spec) or "70000" in repr(spec):
            continue  # numerical expansion of large arrays is outside the exact-set conditions
        out.append(Cond(PROP, "c02.shape-exact", make_shape_exact, {"spec": spec, "names": names, "hi": hi + (2 if thorough else 0)},
                        sig, kind="choice", assumptions=["capacities / extents-in-bytes in 1..%d (choice)" % hi],
                        witness={n: hi for n in names}, budget=300.0))
    for spec in T.catalogue(tier, seed) + T.random_shapes(seed, 300 if thorough else 80):
        out.append(Cond(PROP, "c02.shape-exact", make_shape_exact, {"spec": spec, "names": ["unused"], "hi": 1},
                        {"unused": int}, kind="choice", assumptions=["catalogue shape, no free parameter"],
                        witness={"unused": 1}, budget=300.0))
    fam_inners = [["struct", ["u8"]], ["union", ["u8", "u16"]], ["delim", ["struct", ["u8"]], 16],
                  ["farr", ["struct", ["u3"]], 2]]
    for fam in ("varr-inner-tail", "farr-inner-tail", "head-varrinner-tail", "union", "nested"):
        for inner in fam_inners if thorough else fam_inners[:3]:
            out.append(Cond(PROP, "c02.family", make_family, {"family": fam, "inner": inner},
                            {"w": int, "c": int, "t": int}, kind="choice",
                            assumptions=["element width 1..16, capacity 1..3, tail width 1..8 (choice, 384 members)"],
                            witness={"w": 12, "c": 2, "t": 4}, budget=600.0))
    inners = [(["struct", ["u8", "u16"]], ["union", ["u8", ["farr", "u8", 2]]]), (["struct", []], ["struct", ["bool"]]),
              (["union", ["u8", ["varr", "u16", 3]]], None)]
    for inner, other in inners:
        for r in [0, 8, 24, 1, 4, 63] if thorough else [0, 8, 4]:
            out.append(Cond(PROP, "c02.delimited", make_delimited, {"inner": inner, "other": other, "r": r}, {"q": int},
                            assumptions=["extent = 64*q + %d, -2 <= q <= 2**50" % r], witness={"q": 2}, fmtstub=True,
                            budget=200.0))
    for kind in ("uint", "int", "float", "void"):
        out.append(Cond(PROP, "c02.widths", make_widths, {"kind": kind}, {"w": int, "trunc": bool}, kind="choice",
                        assumptions=["width in -1..66 (choice)"], witness={"w": 16, "trunc": False}, budget=200.0))
    return out


def extra_evidence(tier: str) -> typing.Dict[str, typing.Any]:
    return {
        "bounds": {"array capacity": "every value up to 2**64 (+2**20)", "variant count": "2..2**64 via the static helper",
                   "composite shapes": "catalogue (vp/types.py) and parametrised shapes, nesting depth <= 3",
                   "extent": "64*q + r, q up to 2**50"},
        "outside": ["shapes outside the catalogue", "unions with more than 65537 real variants"],
    }
