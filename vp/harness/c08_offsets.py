"""
C08 - field offsets and in-language layout intrinsics equal the real bit positions.
Real code driven: Structure/Union/DelimitedType.iterate_fields_with_offsets, FixedLengthArrayType
.enumerate_elements_with_offsets (on a SYMBOLIC base offset set), DataSchemaBuilder.offset / `_offset_`,
SerializableType._attribute (`_bit_length_`, `_extent_`) through the real reader on in-memory definitions.
"""

from __future__ import annotations

import typing

from ..symx import Cond, pick
from ..oracle import layout as L
from .. import textio, types as T

PROP = "C08"

# shapes aimed at the offset logic (in addition to the shared catalogue)
SHAPES = [
    ["struct", [["varr", "bool", 5], ["struct", ["u8"]], "u3"]],
    ["struct", ["u3", ["varr", "u4", 3], ["struct", ["u16", "bool"]], ["varr", "u8", 2], "bool"]],
    ["struct", ["bool", ["union", ["u8", ["farr", "u3", 3]]], "u5", ["delim", ["struct", ["u8"]], 24], "u8"]],
    ["union", ["u3", ["struct", ["u16", "u8"]], ["varr", "u8", 2]]],
    ["delim", ["struct", ["u5", ["struct", ["bool"]], ["varr", "u3", 2], "u8"]], 128],
    ["delim", ["union", ["u8", ["struct", ["u16", "bool"]]]], 64],
    ["struct", [["farr", ["struct", ["u3"]], 2], "u1", ["varr", ["struct", ["bool", "u8"]], 2], "u7"]],
    ["struct", ["void3", "u5", ["farr", "u16", 2], "void1", ["struct", []], "u8"]],
]


def _fields_of(spec: typing.Any) -> typing.List[typing.Any]:
    return spec[1][1] if spec[0] == "delim" else spec[1]


def make_iter(spec: typing.Any, r1: int, r2: typing.Optional[int], divisors: typing.List[int]):
    """Base offset set {8*q1 + r1} or {8*q1 + r1, 8*q2 + r2} with unbounded symbolic q1, q2."""
    rel1 = L.field_offsets(spec, {r1})
    rel2 = L.field_offsets(spec, {r2}) if r2 is not None else None
    nf = len(_fields_of(spec))

    def h(q1: int, q2: int) -> typing.Any:
        import pydsdl

        if q1 < 0 or q2 < 0:
            return None
        if r2 is None and q2 != 0:
            return None
        t = T.build(spec)
        base_vals = [8 * q1 + r1] + ([8 * q2 + r2] if r2 is not None else [])
        base = pydsdl.BitLengthSet(base_vals)
        got = [(f, off) for f, off in t.iterate_fields_with_offsets(base)]
        if len(got) != nf:
            return "yielded %d fields, the type has %d" % (len(got), nf)
        inner = t.inner_type
        for i, (f, off) in enumerate(got):
            if f is not inner.fields[i]:
                return "field %d out of order" % i
            shifts = [(8 * q1, rel1[i])] + ([(8 * q2, rel2[i])] if rel2 is not None else [])
            want_min = shifts[0][0] + min(shifts[0][1])
            want_max = shifts[0][0] + max(shifts[0][1])
            for s, rel in shifts[1:]:
                a, b = s + min(rel), s + max(rel)
                if a < want_min:
                    want_min = a
                if b > want_max:
                    want_max = b
            if off.min != want_min or off.max != want_max:
                return "field %d: offset range [%s, %s], want [%s, %s]" % (i, off.min, off.max, want_min, want_max)
            for d in divisors:
                want = set()
                for s, rel in shifts:
                    for x in rel:
                        want.add((s + x) % d)
                res = {x for x in off % d}
                if res != want:
                    return "field %d: offsets mod %d are %s, want %s" % (i, d, sorted(res), sorted(want))
        return True

    return h


def make_iter_exact(spec: typing.Any, bases: typing.List[typing.List[int]]):
    """
    Exact expanded-set equality on concrete base offset sets.  ONE type object is queried with every base in sequence
    (in the order selected by the choice variable), so that state kept between queries is exposed; the list contains
    look-alike bases (equal min, max and residues mod 32, different sets).
    """

    def concrete(order: int) -> typing.Any:
        import pydsdl

        t = T.build(spec)
        seq = list(bases)
        if order == 1:
            seq.reverse()
        elif order == 2:
            seq = seq[1::2] + seq[::2]
        for base in seq:
            want = L.field_offsets(spec, set(base))
            got = list(t.iterate_fields_with_offsets(pydsdl.BitLengthSet(base)))
            if len(got) != len(want):
                return "field count"
            for i, ((f, off), w) in enumerate(zip(got, want)):
                if {x for x in off} != w:
                    return "field %d (%s) with base %s (query order %d): offsets %s, want %s" % (i, f, base, order, sorted(off), sorted(w))
        got0 = list(t.iterate_fields_with_offsets())
        want0 = L.field_offsets(spec, {0})
        for (f, off), w in zip(got0, want0):
            if {x for x in off} != w:
                return "default base: %s" % f
        return True

    def h(bi: int) -> typing.Any:
        a = pick(bi, 0, 2)
        if a is None:
            return None
        return textio.native(concrete, a)

    return h


def make_elems(elem: typing.Any, r: int, max_cap: int):
    eset = L.enumerate_set(elem)
    ea = L.alignment(elem)

    def h(q: int, cap: int) -> typing.Any:
        import pydsdl

        c = pick(cap, 1, max_cap)
        if c is None or q < 0:
            return None
        if not isinstance(elem, str):
            q = pick(q, 0, 2)  # composite elements: the repetition operator on a symbolic base does not exhaust
            if q is None:
                return None
        arr = pydsdl.FixedLengthArrayType(T.build(elem), c)
        got = list(arr.enumerate_elements_with_offsets(pydsdl.BitLengthSet(8 * q + r)))
        if [i for i, _ in got] != list(range(c)):
            return "indices %s" % [i for i, _ in got]
        start = L.pad(r, ea)
        fold = {0}
        for i, off in got:
            want = {8 * q + start + x for x in fold}
            if off.min != 8 * q + start + min(fold) or off.max != 8 * q + start + max(fold):
                return "element %d: range" % i
            if {x % 8 for x in off} != {x % 8 for x in want} or {x for x in off % 64} != {x % 64 for x in want}:
                return "element %d: residues" % i
            fold = {a + b for a in fold for b in eset}
        return True

    return h


# ------------------------------------------------------------------------------------------------------------------
# `_offset_` / `_bit_length_` / `_extent_` through the reader


def _prefix_lengths(fields: typing.Sequence[typing.Any]) -> typing.Set[int]:
    """Lengths of everything before a point of a structure: sequential placement, no padding for what follows."""
    cur = {0}
    first = True
    for f in fields:
        a = L.alignment(f)
        cur = {L.pad(x, a) for x in cur}
        fs = L.enumerate_set(f)
        cur = {x + y for x in cur for y in fs}
        first = False
    _ = first
    return cur


def _union_lengths(fields: typing.Sequence[typing.Any]) -> typing.Set[int]:
    if not fields:
        return {0}
    if len(fields) == 1:
        return set(L.enumerate_set(fields[0]))
    t = max([L.tag_width(len(fields))] + [L.alignment(f) for f in fields])
    out = set()  # type: typing.Set[int]
    for f in fields:
        out |= {t + x for x in L.enumerate_set(f)}
    return out


def _as_int_set(v: typing.Any) -> typing.Optional[typing.Set[int]]:
    from pydsdl import _expression as E

    if not isinstance(v, E.Set):
        return None
    out = set()
    for x in v:
        if not isinstance(x, E.Rational) or not x.is_integer():
            return None
        out.add(x.as_native_integer())
    return out


def _defs(spec: typing.Any, extra: typing.Mapping[int, typing.Sequence[str]], prefix: str = "N") -> typing.Tuple[str, typing.List[typing.Any]]:
    root, deps = T.to_definitions(spec, extra_lines=extra, prefix=prefix)
    return root, [textio.MemDefinition(n, (1, 0), txt) for n, txt in deps]


def make_offset_struct(spec: typing.Any):
    """@capture _offset_ before every field and after the last one of a structure."""
    fields = _fields_of(spec)
    extra = {i: ["@capture _offset_"] for i in range(len(fields) + 1)}
    text, deps = _defs(spec, extra)

    def concrete() -> typing.Any:
        for d in deps:
            d._cached_type = None  # pylint: disable=protected-access
        _, cap = textio.read_text(text, lookup=deps, full_name="ns.Root")
        if len(cap.values) != len(fields) + 1:
            return "captured %d values" % len(cap.values)
        for i, v in enumerate(cap.values):
            got = _as_int_set(v)
            want = _prefix_lengths(fields[:i])
            if got != want:
                return "_offset_ before field %d is %s, want %s" % (i, sorted(got or []), sorted(want))
        return True

    def h(dummy: int) -> typing.Any:
        if dummy != 0:
            return None
        return textio.native(concrete)

    return h


def make_offset_service(spec_a: typing.Any, spec_b: typing.Any):
    """
    `_offset_` queried at ONE choice position of the request and ONE choice position of the response (so that any
    state kept between queries - e.g. a cache keyed by the number of fields - is exposed), plus at all positions.
    """
    fa, fb = _fields_of(spec_a), _fields_of(spec_b)

    def concrete(i: int, j: int) -> typing.Any:
        if i > len(fa):
            ea = {k: ["@capture _offset_"] for k in range(len(fa) + 1)}
            eb = {k: ["@capture _offset_"] for k in range(len(fb) + 1)}
            want = [_prefix_lengths(fa[:k]) for k in range(len(fa) + 1)] + [_prefix_lengths(fb[:k]) for k in range(len(fb) + 1)]
        else:
            ea, eb = {i: ["@capture _offset_"]}, {j: ["@capture _offset_", "@capture _offset_"]}
            want = [_prefix_lengths(fa[:i]), _prefix_lengths(fb[:j]), _prefix_lengths(fb[:j])]
        ta, da = _defs(spec_a, ea, "A")
        tb, db = _defs(spec_b, eb, "B")
        _, cap = textio.read_text(ta + "---\n" + tb, lookup=da + db, full_name="ns.Root")
        if len(cap.values) != len(want):
            return "captured %d values" % len(cap.values)
        for k, (v, w) in enumerate(zip(cap.values, want)):
            if _as_int_set(v) != w:
                return "_offset_ at capture %d (request position %d, response position %d) is %s, want %s" % (
                    k, i, j, sorted(_as_int_set(v) or []), sorted(w))
        return True

    def h(i: int, j: int) -> typing.Any:
        a = pick(i, 0, len(fa) + 1)
        b = pick(j, 0, len(fb))
        if a is None or b is None:
            return None
        if a == len(fa) + 1 and b != 0:
            return None
        return textio.native(concrete, a, b)

    return h


def make_offset_union(spec: typing.Any):
    """After the last variant `_offset_` is tag + union of variants; using it earlier and adding a variant is rejected."""
    fields = _fields_of(spec)
    n = len(fields)

    def concrete(pos: int) -> typing.Any:
        import pydsdl

        text, deps = _defs(spec, {pos: ["@capture _offset_"]})
        try:
            _, cap = textio.read_text(text, lookup=deps, full_name="ns.Root")
        except pydsdl.InvalidDefinitionError as ex:
            if pos < n:
                return True  # offset queried before a later variant: must be rejected
            return "rejected: %s" % type(ex).__name__
        if pos < n:
            return "_offset_ used before variant %d of a union was accepted" % pos
        got = _as_int_set(cap.values[0])
        want = _union_lengths(fields)
        if got != want:
            return "_offset_ after the last variant is %s, want %s" % (sorted(got or []), sorted(want))
        return True

    def h(pos: int) -> typing.Any:
        a = pick(pos, 0, n)
        if a is None:
            return None
        return textio.native(concrete, a)

    return h


def make_attrs(spec: typing.Any):
    """T._bit_length_ and T._extent_ of a dependency equal the API's values and the Specification's."""
    _ftext, fdeps = T.to_definitions(["struct", [spec]])
    dep_name = "ns.N1"  # the first composite the renderer names is `spec` itself
    assert any(n == dep_name for n, _ in fdeps)
    text = "@capture %s.1.0._bit_length_\n@capture %s.1.0._extent_\n@sealed\n" % (dep_name, dep_name)

    def concrete() -> typing.Any:
        from pydsdl import _expression as E

        deps = [textio.MemDefinition(n, (1, 0), txt) for n, txt in fdeps]
        _, cap = textio.read_text(text, lookup=deps, full_name="ns.Root")
        d = [x for x in deps if x.full_name == dep_name][0].read(deps, [], lambda *_: None, True)
        bl, ex = cap.values
        if _as_int_set(bl) != {x for x in d.bit_length_set}:
            return "_bit_length_ differs from bit_length_set"
        if _as_int_set(bl) != L.enumerate_set(spec):
            return "_bit_length_ %s, Specification says %s" % (sorted(_as_int_set(bl) or []), sorted(L.enumerate_set(spec)))
        if not isinstance(ex, E.Rational) or ex.native_value != d.extent or d.extent != L.extent(spec, {}):
            return "_extent_ %s, extent %s, Specification %s" % (ex, d.extent, L.extent(spec, {}))
        return True

    def h(dummy: int) -> typing.Any:
        if dummy != 0:
            return None
        return textio.native(concrete)

    return h


LOOKALIKES = [["struct", [["varr", "u32", 2]]], ["struct", [["varr", "u64", 1]]], ["union", ["u64", ["struct", []]]],
              ["struct", [["varr", "u16", 4]]], ["struct", [["varr", "u8", 8]]], ["struct", [["varr", "u32", 1], ["varr", "u32", 1]]]]


def make_attrs_sequence():
    """
    T._bit_length_ / T._extent_ of several dependencies whose bit length sets are look-alikes (equal min, max, residues
    mod 32) evaluated in ONE definition, in a choice order: each must be the type's own set.
    """
    import itertools as _it

    perms = list(_it.permutations(range(len(LOOKALIKES)), 3))

    def concrete(pi: int) -> typing.Any:
        idx = perms[pi]
        deps = []
        lines = []
        for k, i in enumerate(idx):
            _t, fd = T.to_definitions(["struct", [LOOKALIKES[i]]], prefix="L%d_" % k)
            deps += [textio.MemDefinition(n, (1, 0), txt) for n, txt in fd]
            lines.append("@capture ns.L%d_1.1.0._bit_length_" % k)
            lines.append("@capture ns.L%d_1.1.0._extent_" % k)
        _, cap = textio.read_text("\n".join(lines) + "\n@sealed\n", lookup=deps, full_name="ns.Root")
        for k, i in enumerate(idx):
            got = _as_int_set(cap.values[2 * k])
            want = L.enumerate_set(LOOKALIKES[i])
            if got != want:
                return "%s._bit_length_ (evaluated as number %d of %s) is %s, want %s" % (
                    T.spec_str(LOOKALIKES[i]), k, [T.spec_str(LOOKALIKES[j]) for j in idx], sorted(got or []), sorted(want))
            if cap.values[2 * k + 1].native_value != L.extent(LOOKALIKES[i], {}):
                return "_extent_ of %s" % T.spec_str(LOOKALIKES[i])
        return True

    def h(pi: int) -> typing.Any:
        a = pick(pi, 0, len(perms) - 1)
        if a is None:
            return None
        return textio.native(concrete, a)

    return h


# ------------------------------------------------------------------------------------------------------------------


def _textable(spec: typing.Any) -> bool:
    try:
        T.to_definitions(spec)
        return True
    except T.Unsupported:
        return False


def conditions(tier: str, seed: int) -> typing.List[Cond]:
    import random

    rnd = random.Random(seed)
    thorough = tier == "thorough"
    out = []  # type: typing.List[Cond]
    cat = [s for s in T.catalogue(tier, seed) if not isinstance(s, str)]
    shapes = SHAPES + [s for s in cat if s not in SHAPES]
    rnd_shapes = T.random_shapes(seed + 5, 24 if thorough else 8)
    bases = [[0], [1], [7], [8], [13], [0, 4, 8], [1, 16], [3, 5, 64], [0, 64], [0, 32, 64], [8, 72], [8, 40, 72], [16, 48, 80, 112], [16, 112]]
    iter2_shapes = rnd.sample(shapes + rnd_shapes, 4)
    def heavy(sp: typing.Any) -> bool:
        txt = repr(sp)
        return txt.count("varr") >= 2 and ("['varr', ['struct'" in txt or "['varr', ['delim'" in txt or "['varr', ['union'" in txt)

    for spec in shapes + rnd_shapes:
        if spec in rnd_shapes and heavy(spec):
            sym = False
        else:
            sym = True
        rs = list(range(8)) if thorough else sorted(rnd.sample(range(8), 2))
        for r1 in (rs if sym else []):
            light = repr(spec).count("varr") + repr(spec).count("delim") <= 1
            out.append(Cond(PROP, "c08.iter", make_iter,
                            {"spec": spec, "r1": r1, "r2": None, "divisors": [8, 16, 64] if light else [8]},
                            {"q1": int, "q2": int}, assumptions=["base offset {8*q1 + %d}, q1 >= 0 unbounded" % r1],
                            witness={"q1": 5, "q2": 0}, budget=120.0 if thorough else 60.0, need_exhaust=light))
        pairs = [(0, 4), (1, 16 % 8), (3, 5), (7, 0)] if thorough else [rnd.choice([(0, 4), (1, 0), (3, 5), (7, 0)])]
        if (not thorough and spec not in iter2_shapes) or not sym:
            pairs = []
        for r1, r2 in pairs:
            out.append(Cond(PROP, "c08.iter2", make_iter, {"spec": spec, "r1": r1, "r2": r2, "divisors": [8, 32]},
                            {"q1": int, "q2": int},
                            assumptions=["base offset {8*q1 + %d, 8*q2 + %d}, q1, q2 >= 0 unbounded" % (r1, r2)],
                            witness={"q1": 5, "q2": 1}, budget=180.0 if thorough else 60.0, need_exhaust=False))
        out.append(Cond(PROP, "c08.iter-exact", make_iter_exact, {"spec": spec, "bases": bases}, {"bi": int}, kind="choice",
                        assumptions=["one type object queried with each of the bases %s in 3 orders; exact expanded offsets" % bases],
                        witness={"bi": 0}, budget=300.0, need_exhaust=True))
    elems = ["u3", "u8", ["struct", ["u3", "u8"]], ["delim", ["struct", ["u8"]], 16], ["union", ["u8", "u16"]],
             ["varr", "u4", 2], ["struct", [["varr", "bool", 3]]]]
    for e in elems:
        for r in ([0, 3, 7] if not thorough else list(range(8))):
            out.append(Cond(PROP, "c08.elems", make_elems, {"elem": e, "r": r, "max_cap": 4 if thorough else 3},
                            {"q": int, "cap": int}, assumptions=["base 8*q + %d, q >= 0 unbounded; capacity 1..%d" % (r, 4 if thorough else 3)],
                            witness={"q": 2, "cap": 3}, budget=180.0, need_exhaust=True))
    textable = [s for s in shapes + rnd_shapes if _textable(s)]
    structs = [s for s in textable if (s[1] if s[0] == "delim" else s)[0] == "struct"]
    unions = [s for s in textable if (s[1] if s[0] == "delim" else s)[0] == "union"]
    for spec in structs:
        out.append(Cond(PROP, "c08.offset", make_offset_struct, {"spec": spec}, {"dummy": int}, kind="choice",
                        assumptions=["@capture _offset_ before every field and after the last"], witness={"dummy": 0},
                        budget=120.0, need_exhaust=True))
    for spec in unions:
        out.append(Cond(PROP, "c08.offset-union", make_offset_union, {"spec": spec}, {"pos": int}, kind="choice",
                        assumptions=["@capture _offset_ at every position of a union"], witness={"pos": len(_fields_of(spec))},
                        budget=120.0, need_exhaust=True))
    same = {}  # type: typing.Dict[int, typing.List[typing.Any]]
    for s in structs:
        same.setdefault(len(_fields_of(s)), []).append(s)
    for n, group in sorted(same.items()):
        for i in range(len(group) - 1):
            a, b = group[i], group[i + 1]
            out.append(Cond(PROP, "c08.offset-service", make_offset_service, {"spec_a": a, "spec_b": b}, {"i": int, "j": int},
                            kind="choice", assumptions=["service whose two sections have %d fields each; _offset_ captured "
                                                        "at one choice position of each section, and at all positions" % n],
                            witness={"i": 1, "j": 1}, budget=300.0, need_exhaust=True))
    out.append(Cond(PROP, "c08.attrs-sequence", make_attrs_sequence, {}, {"pi": int}, kind="choice",
                    assumptions=["every ordered triple of 6 types with look-alike bit length sets, _bit_length_ / _extent_ of "
                                 "each evaluated in one definition"], witness={"pi": 0}, budget=300.0, need_exhaust=True))
    for spec in textable:
        out.append(Cond(PROP, "c08.attrs", make_attrs, {"spec": spec}, {"dummy": int}, kind="choice",
                        assumptions=["T._bit_length_ / T._extent_ of a dependency"], witness={"dummy": 0}, budget=120.0,
                        need_exhaust=True))
    return out


def extra_evidence(tier: str) -> typing.Dict[str, typing.Any]:
    return {
        "bounds": {"shapes": "8 offset-specific shapes + shared catalogue + seeded random shapes (depth <= 2)",
                   "base offsets": "8*q + r with q unbounded symbolic, r in 0..7; two-element bases; concrete multi-valued "
                                   "bases for exact equality", "divisors": [8, 16, 32, 64]},
        "outside": ["shapes outside the catalogue / random generator; array-of-array shapes have no DSDL spelling and are "
                    "covered at the API level only"],
    }
