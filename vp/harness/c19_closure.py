"""
C19 - definitions outside the dependency closure cannot influence the result.
Real code driven: pydsdl.read_namespace / read_files on a scratch namespace; the `text` of every definition outside
the closure is an UNCONSTRAINED symbolic str (the DSDLDefinition.text property is overridden for those paths only).
If the real code never evaluates it, the string is never touched and one exhausted path covers every possible text.
"""

from __future__ import annotations

import contextlib
import typing
from pathlib import Path

from ..symx import Cond, pick
from .. import model

PROP = "C19"

TARGET_ROOT = {
    "tgt/T.1.0.dsdl": "dep.D.1.0 d\ndep.sub.E.1.1[<=2] e\nuint8 x\n@print 1 + 1\n@sealed\n",
    "tgt/U.1.0.dsdl": "tgt.T.1.0 t\n@sealed\n",
}
LOOKUP_ROOT = {
    "dep/D.1.0.dsdl": "uint8 a\n@sealed\n",
    "dep/sub/E.1.1.dsdl": "dep.D.1.0 d\n@print 7\n@extent 64\n",
}
# definitions nobody references (their text is what the harness makes symbolic)
OUTSIDERS = {
    "plain": ["dep/Unused.1.0.dsdl"],
    "nested": ["dep/sub/deeper/Unused.2.3.dsdl"],
    "other-version": ["dep/D.1.1.dsdl", "dep/D.2.0.dsdl"],  # other versions of a referenced name
    "port-collision": ["dep/100.P.1.0.dsdl", "dep/100.Q.1.0.dsdl"],  # same fixed port-ID, both unreferenced
    "minor-conflict": ["dep/sub/E.1.0.dsdl"],  # older minor of a REFERENCED type (could conflict in extent/sealing)
    "kind-conflict": ["dep/5.S.1.0.dsdl", "dep/S.1.1.dsdl"],
    "own-root": ["tgt/Unused.1.0.dsdl"],  # only for read_files: another definition of the target's root
    "own-root-collision": ["tgt/7000.V.1.0.dsdl", "tgt/7000.W.1.0.dsdl"],
    # other lookup directories whose root namespace has the target root's name and which hold namesakes of the targets
    # (of U only: T is referenced by U, and a reference to a name defined twice is a collision by C09)
    "namesake-roots": ["o1/tgt/U.1.0.dsdl", "o2/tgt/U.1.0.dsdl", "o3/tgt/U.1.0.dsdl", "o4/tgt/U.1.0.dsdl", "o1/tgt/X.1.0.dsdl"],
    "namesake-dep-roots": ["o1/dep/Unused.1.0.dsdl", "o2/dep/sub/E.1.0.dsdl"],
    # the files of these outsiders are EMPTY on disk (zero bytes): even looking at their size must not matter
    "empty-files": ["dep/Empty.1.0.dsdl", "dep/sub/Empty.2.0.dsdl", "dep/D.1.1.dsdl"],
    # the target tgt/M refers to dep.Missing.1.0, which does not exist: definitions that merely share its short name
    # and version (in other namespaces / roots) are outsiders - the outcome (an error) must not depend on them
    "missing-ref-namesake": ["dep/sub/Missing.1.0.dsdl", "dep/x/y/Missing.1.0.dsdl", "o1/other/Missing.1.0.dsdl"],
    "missing-ref-single-namesake": ["dep/sub/Missing.1.0.dsdl"],
    "missing-ref-other-root": ["o1/other/Missing.1.0.dsdl"],
    # a self-referential target and a two-element cycle: namesakes of their members in another directory of the same
    # root-namespace name are outsiders (the self exclusion goes by name and version, not by file)
    "self-ref-namesake": ["o1/tgt/Loop.1.0.dsdl", "o2/tgt/Ping.1.0.dsdl"],
}
_M = {"tgt/M.1.0.dsdl": "dep.Missing.1.0 m\nMissing.1.0 n\n@sealed\n"}
_L = {"tgt/Loop.1.0.dsdl": "uint8 v\ntgt.Loop.1.0[<=1] next\n@sealed\n"}
_P = {"tgt/Ping.1.0.dsdl": "tgt.Pong.1.0 p\n@sealed\n", "tgt/Pong.1.0.dsdl": "tgt.Ping.1.0 q\n@sealed\n"}
EXTRA_TARGETS = {"missing-ref-namesake": _M, "missing-ref-single-namesake": _M, "missing-ref-other-root": _M,
                 "self-ref-namesake": dict(_L, **_P)}


class _Tree:
    def __init__(self, outsiders: typing.List[str], content: str = "@sealed\n",
                 extra: typing.Optional[typing.Dict[str, str]] = None) -> None:
        self.root = model.scratch_dir("c19")
        files = dict(TARGET_ROOT)
        files.update(LOOKUP_ROOT)
        files.update(extra or {})
        for o in outsiders:
            files[o] = content
        model.write_tree(self.root, files)
        self.outsider_paths = {(self.root / o).resolve() for o in outsiders}
        self.extra_lookups = sorted({self.root / o.split("/")[0] / o.split("/")[1] for o in outsiders
                                     if o.split("/")[0] not in ("tgt", "dep")})


@contextlib.contextmanager
def _symbolic_text(paths: typing.Set[Path], texts: typing.Dict[Path, typing.Any], touched: typing.List[Path]) -> typing.Iterator[None]:
    from pydsdl._dsdl_definition import DSDLDefinition

    orig = DSDLDefinition.text

    def text(self: typing.Any) -> typing.Any:
        if self._file_path in paths:  # pylint: disable=protected-access
            touched.append(self._file_path)  # pylint: disable=protected-access
            return texts[self._file_path]  # pylint: disable=protected-access
        return orig.fget(self)  # type: ignore

    DSDLDefinition.text = property(text)  # type: ignore
    try:
        yield
    finally:
        DSDLDefinition.text = orig  # type: ignore


def _run(api: str, tree: _Tree, targets: typing.List[str], prints: typing.List[typing.Any]) -> typing.Any:
    import pydsdl

    def handler(path: Path, line: int, text: str) -> None:
        prints.append((str(path), line, text))

    def go() -> typing.Any:
        if api == "read_namespace":
            ts = pydsdl.read_namespace(tree.root / "tgt", [tree.root / "dep"] + tree.extra_lookups, handler,
                                       allow_unregulated_fixed_port_id=True)
            return tuple(model.summary(t) for t in ts)
        d, tr = pydsdl.read_files([tree.root / t for t in targets], [tree.root / "tgt"], [tree.root / "dep"] + tree.extra_lookups,
                                  handler, allow_unregulated_fixed_port_id=True)
        return tuple(model.summary(t) for t in d), tuple(model.summary(t) for t in tr)

    return model.outcome(go)


def make_closure(api: str, scenario: str, targets: typing.List[str]):
    outs = OUTSIDERS[scenario]
    tree = _Tree(outs, "" if scenario == "empty-files" else "@sealed\n", EXTRA_TARGETS.get(scenario))
    # the reference result comes from a tree WITHOUT the outsiders: what is outside the closure cannot matter
    bare = _Tree([], extra=EXTRA_TARGETS.get(scenario))
    bare.extra_lookups = []
    base_prints = []  # type: typing.List[typing.Any]
    baseline = _strip(_run(api, bare, targets, base_prints), bare.root)
    base_prints = [(_rel(p, bare.root), l, t) for p, l, t in base_prints]
    assert baseline[0] == "ok" or scenario in EXTRA_TARGETS, baseline
    opaths = sorted(tree.outsider_paths)

    def h(t0: str, t1: str) -> typing.Any:
        texts = {p: (t0 if i == 0 else t1) for i, p in enumerate(opaths)}
        prints = []  # type: typing.List[typing.Any]
        touched = []  # type: typing.List[Path]
        with _symbolic_text(tree.outsider_paths, texts, touched):
            got = _strip(_run(api, tree, targets, prints), tree.root)
        prints = [(_rel(p, tree.root), l, t) for p, l, t in prints]
        if touched:
            return "text of a definition outside the closure was loaded: %s" % sorted({str(p) for p in touched})
        if got != baseline:
            return "result depends on a definition outside the closure"
        if prints != base_prints:
            return "print output differs: %r vs %r" % (prints, base_prints)
        return True

    return h


def _rel(p: str, root: Path) -> str:
    r = str(root.resolve())
    return p[len(r):] if p.startswith(r) else p


def _strip(outcome: typing.Any, root: Path) -> typing.Any:
    """Error outcomes carry a path under the scratch root: make it relative so that two trees can be compared."""
    if outcome and outcome[0] == "error" and outcome[2]:
        return (outcome[0], outcome[1], _rel(outcome[2], root), outcome[3])
    return outcome


def conditions(tier: str, seed: int) -> typing.List[Cond]:
    out = []  # type: typing.List[Cond]
    for api in ("read_namespace", "read_files"):
        for scenario in OUTSIDERS:
            if api == "read_namespace" and scenario.startswith("own-root"):
                continue  # read_namespace reads every definition of the target root by contract
            targets = ["tgt/T.1.0.dsdl"] if api == "read_files" else []
            if scenario == "namesake-roots" and api == "read_files":
                targets = ["tgt/U.1.0.dsdl"]
            if scenario.startswith("missing-ref") and api == "read_files":
                targets = ["tgt/M.1.0.dsdl"]
            if scenario == "self-ref-namesake" and api == "read_files":
                targets = ["tgt/Loop.1.0.dsdl"]
            out.append(Cond(PROP, "c19.text", make_closure, {"api": api, "scenario": scenario, "targets": targets},
                            {"t0": str, "t1": str}, assumptions=["text of each outsider: any str (unconstrained)"],
                            stubs=["DSDLDefinition.text overridden for outsider paths (returns the symbolic str and "
                                   "records the access)"],
                            witness={"t0": "garbage \x00 @@", "t1": "uint8 x\n@assert false\n"}, budget=300.0))
    out.append(Cond(PROP, "c19.text", make_closure,
                    {"api": "read_files", "scenario": "self-ref-namesake", "targets": ["tgt/Ping.1.0.dsdl"]},
                    {"t0": str, "t1": str}, assumptions=["text of each outsider: any str (unconstrained)"],
                    stubs=["DSDLDefinition.text overridden for outsider paths"],
                    witness={"t0": "", "t1": "uint8 x\n@sealed\n"}, budget=300.0))
    out.append(Cond(PROP, "c19.text", make_closure,
                    {"api": "read_files", "scenario": "own-root", "targets": ["tgt/T.1.0.dsdl", "tgt/U.1.0.dsdl"]},
                    {"t0": str, "t1": str}, assumptions=["text of each outsider: any str (unconstrained)"],
                    stubs=["DSDLDefinition.text overridden for outsider paths"],
                    witness={"t0": "", "t1": "@print 1/0"}, budget=300.0))
    return out


def extra_evidence(tier: str) -> typing.Dict[str, typing.Any]:
    return {
        "bounds": {"namespaces": "one target root (2 definitions) + one lookup root (2 referenced definitions), "
                   "8 outsider placements incl. colliding port-IDs / versions / kinds",
                   "outsider text": "unconstrained symbolic str (every text, any length)"},
        "outside": ["malformed FILE NAMES in lookup directories (inspected when the directory is listed: allowed to be "
                    "reported by the property itself)", "other namespace layouts"],
    }


_ = pick
