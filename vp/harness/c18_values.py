"""
C18 - model objects are immutable values with a sound equality / hash / pickle contract.
Real code driven: __eq__ / __hash__ of SerializableType, Attribute / Constant, expression values (Rational, Boolean,
String, Set) and BitLengthSet; list-returning accessors of CompositeType; pickling.
Symbolic where the code does not format the number into text: numerators of rationals, constant values, leaves of bit
length sets.  Type parameters that str() realises (widths, capacities, versions) are choice domains.
"""

from __future__ import annotations

import fractions
import typing

from ..symx import Cond, pick
from .. import types as T, textio

PROP = "C18"
Fr = fractions.Fraction


# ------------------------------------------------------------------------------------------------------------------
# expression values: symbolic numerators


def make_rational(da: int, db: int):
    def h(na: int, nb: int) -> typing.Any:
        from pydsdl import _expression as E

        x, y = E.Rational(Fr(na, da)), E.Rational(Fr(nb, db))
        same = na * db == nb * da
        a, b = (x == y), (y == x)
        if a != b:
            return "Rational equality is not symmetric"
        if a != same:
            return "Rational equality differs from equality of the values"
        if (x != y) == a:
            return "!= is not the negation of =="
        if not (x == x) or not (y == y):
            return "not reflexive"
        x2 = E.Rational(Fr(na, da))
        if not (x == x2):
            return "two values built from the same description are unequal"
        return True

    return h


def make_rational_hash(da: int, db: int, lo: int, hi: int):
    def h(na: int, nb: int) -> typing.Any:
        from pydsdl import _expression as E

        a, b = pick(na, lo, hi), pick(nb, lo, hi)
        if a is None or b is None:
            return None
        x, y = E.Rational(Fr(a, da)), E.Rational(Fr(b, db))
        if (x == y) != (Fr(a, da) == Fr(b, db)) or (x == y) != (y == x):
            return "equality"
        if x == y and hash(x) != hash(y):
            return "equal rationals hash differently"
        s1, s2 = E.Set([x, E.Rational(1)]), E.Set([E.Rational(1), y])
        if (s1 == s2) != (s2 == s1):
            return "Set equality is not symmetric"
        if (s1 == s2) != (Fr(a, da) == Fr(b, db)):
            return "Set equality differs from equality of the elements"
        if s1 == s2 and hash(s1) != hash(s2):
            return "equal sets hash differently"
        return True

    return h


def make_constant(dtype: str):
    """Constants with symbolic values: equal <=> same type, name and value; built twice from one description: equal."""

    def h(a: int, b: int) -> typing.Any:
        import pydsdl
        from pydsdl import _expression as E

        lo, hi = (0, 255) if dtype == "u8" else (-(2 ** 63), 2 ** 63 - 1) if dtype == "i64" else (-60000, 60000)
        if not (lo <= a <= hi and lo <= b <= hi):
            return None
        ty = T.prim(dtype)
        x = pydsdl.Constant(ty, "K", E.Rational(a))
        y = pydsdl.Constant(T.prim(dtype), "K", E.Rational(b))
        z = pydsdl.Constant(ty, "L", E.Rational(a))
        if (x == y) != (a == b) or (y == x) != (a == b):
            return "Constant equality differs from equality of type, name and value"
        if x == z or z == x:
            return "constants with different names compare equal"
        if not (x == pydsdl.Constant(T.prim(dtype), "K", E.Rational(a))):
            return "two constants built from one description are unequal"
        if x.value.native_value != a:
            return "value changed"
        return True

    return h


# ------------------------------------------------------------------------------------------------------------------
# bit length sets: symbolic leaves


def make_bls(variant: str, ra: int = -1, rb: int = -1):
    def h(a: int, b: int) -> typing.Any:
        from pydsdl import BitLengthSet

        if not (0 <= a <= 2 ** 40 and 0 <= b <= 2 ** 40):
            return None
        if ra >= 0:
            a, b = 32 * a + ra, 32 * b + rb  # residues mod 32 are scaffolding (== compares residues), magnitudes symbolic
        if variant == "cat":
            x, y = BitLengthSet(a) + BitLengthSet(b), BitLengthSet(a + b)
        elif variant == "union":
            x, y = BitLengthSet(a) | BitLengthSet(b), BitLengthSet([b, a])
        elif variant == "repeat":
            x, y = BitLengthSet([a, b]).repeat(2), BitLengthSet([2 * a, a + b, 2 * b])
        elif variant == "range":
            x, y = BitLengthSet(a).repeat_range(2), BitLengthSet([0, a, 2 * a])
        elif variant == "pad":
            x, y = BitLengthSet([a, b]).pad_to_alignment(8), BitLengthSet([-((-a) // 8) * 8, -((-b) // 8) * 8])
        else:
            x, y = BitLengthSet([a, b]) + BitLengthSet(8), BitLengthSet(8) + BitLengthSet([b, a])
        if not (x == y) or not (y == x):
            return "two bit length sets with equal expansions compare unequal (%s)" % variant
        if x != y:
            return "!= disagrees with =="
        return True

    return h


def make_bls_hash(variant: str):
    inner = make_bls(variant)

    def h(a: int, b: int) -> typing.Any:
        from pydsdl import BitLengthSet

        x, y = pick(a, 0, 12), pick(b, 0, 12)
        if x is None or y is None:
            return None
        r = inner(x, y)
        if r is not True:
            return r
        if variant == "cat":
            p, q = BitLengthSet(x) + BitLengthSet(y), BitLengthSet(x + y)
        elif variant == "repeat":
            p, q = BitLengthSet([x, y]).repeat(2), BitLengthSet([2 * x, x + y, 2 * y])
        else:
            p, q = BitLengthSet(x) | BitLengthSet(y), BitLengthSet([y, x])
        if hash(p) != hash(q):
            return "equal bit length sets hash differently"
        u, v = BitLengthSet([x, y]), BitLengthSet([x, y + 32 * 3])
        if (u == v) and hash(u) != hash(v):
            return "sets that compare equal hash differently"
        return True

    return h


# ------------------------------------------------------------------------------------------------------------------
# the zoo: objects of every class built independently from descriptors (choice-exhaustive pairs, native)


def _zoo() -> typing.List[typing.Tuple[str, typing.Any, typing.Callable[[], typing.Any]]]:
    """[(class tag, identity key, builder)]: two entries must be equal iff their (tag, key) are equal."""
    import pydsdl
    from pydsdl import _expression as E

    S, Tr = pydsdl.PrimitiveType.CastMode.SATURATED, pydsdl.PrimitiveType.CastMode.TRUNCATED
    P = T.prim
    z = []  # type: typing.List[typing.Tuple[str, typing.Any, typing.Callable[[], typing.Any]]]

    def add(tag: str, key: typing.Any, fn: typing.Callable[[], typing.Any]) -> None:
        z.append((tag, key, fn))

    for spec in ["bool", "byte", "utf8", "u8", "tu8", "i8", "u7", "u64", "i64", "f16", "f32", "tf32", "f64", "void8", "void3"]:
        add("type", spec, lambda spec=spec: P(spec))
    add("type", "u8", lambda: pydsdl.UnsignedIntegerType(8, S))
    add("type", "tu8", lambda: pydsdl.UnsignedIntegerType(8, Tr))
    for e, n in [("u8", 3), ("u8", 4), ("bool", 3), ("u7", 3), ("tu8", 3)]:
        add("type", "%s[%d]" % (e, n), lambda e=e, n=n: pydsdl.FixedLengthArrayType(P(e), n))
        add("type", "%s[<=%d]" % (e, n), lambda e=e, n=n: pydsdl.VariableLengthArrayType(P(e), n))
    add("type", "byte[<=3]", lambda: pydsdl.VariableLengthArrayType(P("byte"), 3))
    add("type", "utf8[<=3]", lambda: pydsdl.VariableLengthArrayType(P("utf8"), 3))
    add("type", "u8[<=255]", lambda: pydsdl.VariableLengthArrayType(P("u8"), 255))
    add("type", "u8[<=256]", lambda: pydsdl.VariableLengthArrayType(P("u8"), 256))

    def comp(kind: str, fields: typing.List[str], name: str, ver: typing.Tuple[int, int], **kw: typing.Any) -> typing.Any:
        return T.composite(kind, [T.build(f) if not isinstance(f, str) else P(f) for f in fields], name=name, version=ver, **kw)

    comps = [
        ("ns.A/1.0/struct/u8", lambda: comp("struct", ["u8"], "ns.A", (1, 0))),
        ("ns.A/1.0/struct/u8", lambda: comp("struct", ["u8"], "ns.A", (1, 0))),
        ("ns.A/1.1/struct/u8", lambda: comp("struct", ["u8"], "ns.A", (1, 1))),
        ("ns.B/1.0/struct/u8", lambda: comp("struct", ["u8"], "ns.B", (1, 0))),
        ("ns.A/1.0/struct/u16", lambda: comp("struct", ["u16"], "ns.A", (1, 0))),
        ("ns.A/1.0/struct/u8,u8", lambda: comp("struct", ["u8", "u8"], "ns.A", (1, 0))),
        ("ns.A/1.0/union/u8,u8", lambda: comp("union", ["u8", "u8"], "ns.A", (1, 0))),
        ("ns.A/1.0/struct/empty", lambda: comp("struct", [], "ns.A", (1, 0))),
        ("ns.A/1.0/delim64/u8", lambda: pydsdl.DelimitedType(comp("struct", ["u8"], "ns.A", (1, 0)), 64)),
        ("ns.A/1.0/delim64/u8", lambda: pydsdl.DelimitedType(comp("struct", ["u8"], "ns.A", (1, 0)), 64)),
        ("ns.A/1.0/delim128/u8", lambda: pydsdl.DelimitedType(comp("struct", ["u8"], "ns.A", (1, 0)), 128)),
        ("ns.A/1.0/delim8/u8", lambda: pydsdl.DelimitedType(comp("struct", ["u8"], "ns.A", (1, 0)), 8)),
    ]
    for key, fn in comps:
        add("type", key, fn)

    def service(name: str, rq: typing.List[str], rs: typing.List[str]) -> typing.Any:
        a = comp("struct", rq, name + ".Request", (1, 0), has_parent_service=True)
        b = comp("struct", rs, name + ".Response", (1, 0), has_parent_service=True)
        return pydsdl.ServiceType(a, b, None)

    add("type", "svc ns.S u8/u8", lambda: service("ns.S", ["u8"], ["u8"]))
    add("type", "svc ns.S u8/u8", lambda: service("ns.S", ["u8"], ["u8"]))
    add("type", "svc ns.Q u8/u8", lambda: service("ns.Q", ["u8"], ["u8"]))
    # messages named like a service (same text rendering, different kind)
    add("type", "ns.S/1.0/struct/u8", lambda: comp("struct", ["u8"], "ns.S", (1, 0)))
    add("type", "ns.S/1.0/struct/empty", lambda: comp("struct", [], "ns.S", (1, 0)))
    add("type", "ns.S/1.0/delim64/u8", lambda: pydsdl.DelimitedType(comp("struct", ["u8"], "ns.S", (1, 0)), 64))
    # attributes
    add("field", "u8 a", lambda: pydsdl.Field(P("u8"), "a"))
    add("field", "u8 a", lambda: pydsdl.Field(P("u8"), "a", "with a doc comment"))
    add("field", "u8 b", lambda: pydsdl.Field(P("u8"), "b"))
    add("field", "u16 a", lambda: pydsdl.Field(P("u16"), "a"))
    add("field", "tu8 a", lambda: pydsdl.Field(P("tu8"), "a"))
    add("field", "u8[3] a", lambda: pydsdl.Field(pydsdl.FixedLengthArrayType(P("u8"), 3), "a"))
    add("padding", "void8", lambda: pydsdl.PaddingField(P("void8")))
    add("padding", "void8", lambda: pydsdl.PaddingField(P("void8")))
    add("padding", "void3", lambda: pydsdl.PaddingField(P("void3")))
    add("constant", "u8 A = 97", lambda: pydsdl.Constant(P("u8"), "A", E.Rational(97)))
    add("constant", "u8 A = 97", lambda: pydsdl.Constant(P("u8"), "A", E.String("a")))
    add("constant", "u8 A = 98", lambda: pydsdl.Constant(P("u8"), "A", E.String("b")))
    add("constant", "u8 B = 97", lambda: pydsdl.Constant(P("u8"), "B", E.Rational(97)))
    add("constant", "u16 A = 97", lambda: pydsdl.Constant(P("u16"), "A", E.Rational(97)))
    add("constant", "f32 A = 3/2", lambda: pydsdl.Constant(P("f32"), "A", E.Rational(Fr(3, 2))))
    add("constant", "f32 A = 3", lambda: pydsdl.Constant(P("f32"), "A", E.Rational(3)))
    add("constant", "f32 A = 3", lambda: pydsdl.Constant(P("f32"), "A", E.Rational(Fr(6, 2))))
    add("constant", "bool A = true", lambda: pydsdl.Constant(P("bool"), "A", E.Boolean(True)))
    add("constant", "bool A = false", lambda: pydsdl.Constant(P("bool"), "A", E.Boolean(False)))
    # expression values
    add("rational", Fr(3), lambda: E.Rational(3))
    add("rational", Fr(3), lambda: E.Rational(Fr(6, 2)))
    add("rational", Fr(3, 2), lambda: E.Rational(Fr(3, 2)))
    add("rational", Fr(-3), lambda: E.Rational(-3))
    add("rational", Fr(0), lambda: E.Rational(0))
    add("boolean", True, lambda: E.Boolean(True))
    add("boolean", False, lambda: E.Boolean(False))
    add("string", "a", lambda: E.String("a"))
    add("string", "a", lambda: E.String("a"))
    add("string", "b", lambda: E.String("b"))
    add("string", "", lambda: E.String(""))
    add("string", "e-acute composed", lambda: E.String("\u00e9"))
    add("string", "e-acute decomposed", lambda: E.String("e\u0301"))
    add("string", "angstrom sign", lambda: E.String("\u212b"))
    add("string", "A-ring", lambda: E.String("\u00c5"))
    add("set", "{e-acute composed}", lambda: E.Set([E.String("\u00e9")]))
    add("set", "{e-acute decomposed}", lambda: E.Set([E.String("e\u0301")]))
    add("set", "{1,2}", lambda: E.Set([E.Rational(1), E.Rational(2)]))
    add("set", "{1,2}", lambda: E.Set([E.Rational(2), E.Rational(1), E.Rational(Fr(4, 2))]))
    add("set", "{1}", lambda: E.Set([E.Rational(1)]))
    add("set", "{'a'}", lambda: E.Set([E.String("a")]))
    add("set", "{true}", lambda: E.Set([E.Boolean(True)]))
    add("bls", "{8}", lambda: pydsdl.BitLengthSet(8))
    add("bls", "{8}", lambda: pydsdl.BitLengthSet([8]))
    add("bls", "{8,16}", lambda: pydsdl.BitLengthSet([16, 8]))
    add("bls", "{8,16}", lambda: pydsdl.BitLengthSet(8) + pydsdl.BitLengthSet([0, 8]))
    add("bls", "{0}", lambda: pydsdl.BitLengthSet(0))
    return z


def make_pairs(tag: str):
    zoo = [e for e in _zoo() if e[0] == tag]
    n = len(zoo)

    def concrete(i: int, j: int) -> typing.Any:
        (_, ki, fi), (_, kj, fj) = zoo[i], zoo[j]
        x, y = fi(), fj()
        want = ki == kj
        if tag == "type" and not want:
            import pydsdl

            def feat(t: typing.Any) -> typing.Any:
                return (type(t), str(t), None if isinstance(t, pydsdl.ServiceType) else tuple(sorted(t.bit_length_set)))

            if feat(x) == feat(y):
                return True  # same kind, string form and bit length set: the property does not say which way == goes
        if (x == y) != want or (y == x) != want:
            return "%s: %r == %r is %s / %s, want %s" % (tag, ki, kj, x == y, y == x, want)
        if (x != y) == want:
            return "%s: != is not the negation of == for %r, %r" % (tag, ki, kj)
        if want and hash(x) != hash(y):
            return "%s: equal objects %r / %r (entries %d, %d) hash differently" % (tag, ki, kj, i, j)
        if not (x == x) or hash(x) != hash(fi()):
            return "%s: %r is not equal to itself / hash not stable" % (tag, ki)
        if want and str(x) != str(y) and tag not in ("field", "bls"):
            return "%s: equal objects print differently" % tag
        # usable as dictionary keys / set members
        if len({x, y}) != (1 if want else 2):
            return "%s: set membership disagrees with equality" % tag
        return True

    def h(i: int, j: int) -> typing.Any:
        a, b = pick(i, 0, n - 1), pick(j, 0, n - 1)
        if a is None or b is None:
            return None
        return textio.native(concrete, a, b)

    return h


def make_sequence():
    """
    Values stay values while OTHER objects built from them are queried: a type is embedded as first / later member of a
    union and of a structure, the container is compared, hashed and asked for residues, and afterwards the member must
    still equal (and hash like) an independently built twin - and so must its bit length set.
    """
    zoo = [e for e in _zoo() if e[0] == "type" and not e[1].startswith("svc") and "void" not in str(e[1])
           and e[1] not in ("byte", "utf8")]
    n = len(zoo)

    def concrete(i: int, pos: int, kind: int) -> typing.Any:
        import pydsdl

        _, key, fn = zoo[i]
        x = fn()
        before = (hash(x), str(x), sorted(x.bit_length_set % 32), x.bit_length_set.min, x.bit_length_set.max)
        others = [T.prim("u16"), T.prim("bool"), pydsdl.VariableLengthArrayType(T.prim("u3"), 5)]
        members = list(others)
        members.insert(pos, x)
        c = T.composite("union" if kind else "struct", members, name="ns.Holder")
        c2 = T.composite("union" if kind else "struct", list(members), name="ns.Holder")
        if not (c == c2) or hash(c) != hash(c2):
            return "containers built from the same members differ"
        _ = (sorted(c.bit_length_set % 32), sorted(c.bit_length_set % 8), c.bit_length_set.is_aligned_at_byte(), c.extent)
        for _f, off in c.iterate_fields_with_offsets():
            _ = sorted(off % 32)
        fresh = fn()
        after = (hash(x), str(x), sorted(x.bit_length_set % 32), x.bit_length_set.min, x.bit_length_set.max)
        if before != after:
            return "%r changed after a container holding it (position %d) was queried: %r -> %r" % (key, pos, before, after)
        if not (x == fresh) or not (fresh == x) or hash(x) != hash(fresh):
            return "%r no longer equals an independently built twin after its container was queried" % (key,)
        if not (x.bit_length_set == fresh.bit_length_set) or hash(x.bit_length_set) != hash(fresh.bit_length_set):
            return "bit length set of %r no longer equals its twin's" % (key,)
        return True

    def h(i: int, pos: int, kind: int) -> typing.Any:
        a, b, c = pick(i, 0, n - 1), pick(pos, 0, 3), pick(kind, 0, 1)
        if a is None or b is None or c is None:
            return None
        return textio.native(concrete, a, b, c)

    return h


def make_copies():
    """Lists returned by accessors are copies: mutating them does not affect the object."""
    accessors = ["attributes", "fields", "constants", "fields_except_padding", "name_components", "namespace_components"]

    def concrete(k: int, ai: int) -> typing.Any:
        import pydsdl
        from pydsdl import _expression as E

        kinds = ["struct", "union", "delim", "service-request"]
        kind = kinds[k]
        consts = [pydsdl.Constant(T.prim("u8"), "K", E.Rational(1))]
        base = T.composite("union" if kind == "union" else "struct", [T.prim("u8"), T.prim("u16")] + ([T.prim("void8")] if kind != "union" else []),
                           name="ns.sub.C", constants=consts)
        obj = pydsdl.DelimitedType(base, 128) if kind == "delim" else base
        if kind == "service-request":
            rq = T.composite("struct", [T.prim("u8"), T.prim("void8")], name="ns.sub.S.Request", has_parent_service=True, constants=consts)
            rs = T.composite("struct", [T.prim("u8")], name="ns.sub.S.Response", has_parent_service=True)
            obj = pydsdl.ServiceType(rq, rs, None).request_type
        acc = accessors[ai]
        before = repr(getattr(obj, acc)), str(obj), repr(obj), sorted(obj.bit_length_set), hash(obj)
        lst = getattr(obj, acc)
        if not isinstance(lst, list):
            return "%s does not return a list" % acc
        lst.append(lst[0] if lst else "x")
        lst.reverse()
        del lst[0]
        lst.clear()
        after = repr(getattr(obj, acc)), str(obj), repr(obj), sorted(obj.bit_length_set), hash(obj)
        if before != after:
            return "mutating the list returned by %s.%s changed the object" % (kind, acc)
        if getattr(obj, acc) is getattr(obj, acc) and getattr(obj, acc):
            return "%s returns the same list object twice" % acc
        return True

    def h(k: int, ai: int) -> typing.Any:
        a, b = pick(k, 0, 3), pick(ai, 0, len(accessors) - 1)
        if a is None or b is None:
            return None
        return textio.native(concrete, a, b)

    return h


def make_pickle():
    def concrete(i: int) -> typing.Any:
        import pickle

        zoo = _zoo()
        tag, key, fn = zoo[i]
        x = fn()
        y = pickle.loads(pickle.dumps(x))
        if not (x == y) or not (y == x) or hash(x) != hash(y):
            return "pickle round trip of %s %r is unequal / hashes differently" % (tag, key)
        if str(x) != str(y) or repr(x) != repr(y):
            return "pickle round trip of %s %r changes the string form" % (tag, key)
        if tag == "type":
            import pydsdl

            if not isinstance(x, pydsdl.ServiceType):
                if sorted(x.bit_length_set) != sorted(y.bit_length_set) or x.alignment_requirement != y.alignment_requirement:
                    return "pickle round trip changes the layout"
            if isinstance(x, pydsdl.CompositeType) and not isinstance(x, pydsdl.ServiceType):
                if [str(a) for a in x.attributes] != [str(a) for a in y.attributes] or x.version != y.version or \
                        x.full_name != y.full_name or x.extent != y.extent or x.deprecated != y.deprecated:
                    return "pickle round trip changes attributes"
        return True

    n = len(_zoo())

    def h(i: int) -> typing.Any:
        a = pick(i, 0, n - 1)
        if a is None:
            return None
        return textio.native(concrete, a)

    return h


def make_pickle_xproc():
    """
    Pickles made in ANOTHER interpreter process with a different hash seed (after the objects were hashed there): the
    unpickled objects must equal, and hash like, objects built here.
    """

    def concrete() -> typing.Any:
        import os
        import pickle
        import subprocess
        import sys

        code = ("import sys, pickle\n"
                "sys.path.insert(0, %r)\n"
                "from vp.harness.c18_values import _zoo\n"
                "objs = [fn() for _, _, fn in _zoo()]\n"
                "_ = [hash(o) for o in objs]\n"
                "_ = {o: 1 for o in objs}\n"
                "sys.stdout.buffer.write(pickle.dumps(objs))\n") % os.path.dirname(os.path.dirname(os.path.dirname(os.path.abspath(__file__))))
        env = dict(os.environ)
        env["PYTHONHASHSEED"] = "12345" if env.get("PYTHONHASHSEED", "0") != "12345" else "54321"
        out = subprocess.run([sys.executable, "-c", code], env=env, stdout=subprocess.PIPE, stderr=subprocess.PIPE, timeout=120)
        if out.returncode != 0:
            return "producer process failed: %s" % out.stderr.decode()[-300:]
        theirs = pickle.loads(out.stdout)
        zoo = _zoo()
        if len(theirs) != len(zoo):
            return "object count"
        for (tag, key, fn), y in zip(zoo, theirs):
            x = fn()
            if not (x == y) or not (y == x):
                return "%s %r unpickled from another process is unequal to a locally built one" % (tag, key)
            if hash(x) != hash(y):
                return "%s %r unpickled from another process (different hash seed) hashes differently from an equal local object" % (tag, key)
            if len({x, y}) != 1:
                return "%s %r: set membership" % (tag, key)
            if tag != "bls" and str(x) != str(y) and tag != "set":
                return "%s %r: string form" % (tag, key)
        return True

    def h(dummy: int) -> typing.Any:
        if dummy != 0:
            return None
        return textio.native(concrete)

    return h


# ------------------------------------------------------------------------------------------------------------------


def conditions(tier: str, seed: int) -> typing.List[Cond]:
    thorough = tier == "thorough"
    out = []  # type: typing.List[Cond]
    dens = [(1, 1), (1, 2), (2, 1), (2, 3), (3, 2), (2, 2)] if thorough else [(1, 1), (1, 2), (2, 1), (2, 3)]
    for da, db in dens:
        out.append(Cond(PROP, "c18.rational", make_rational, {"da": da, "db": db}, {"na": int, "nb": int},
                        assumptions=["x = na/%d, y = nb/%d, numerators unbounded" % (da, db)], witness={"na": 3, "nb": 3},
                        budget=120.0, need_exhaust=True))
        out.append(Cond(PROP, "c18.rational-hash", make_rational_hash, {"da": da, "db": db, "lo": -4, "hi": 6}, {"na": int, "nb": int},
                        kind="choice", assumptions=["numerators in [-4, 6] (hash() realises)"], witness={"na": 3, "nb": 3},
                        budget=300.0, need_exhaust=True))
    for dt in ("u8", "i64", "f32"):
        out.append(Cond(PROP, "c18.constant", make_constant, {"dtype": dt}, {"a": int, "b": int},
                        assumptions=["values a, b: the whole range of %s (f32: [-60000, 60000])" % dt], witness={"a": 5, "b": 5},
                        budget=240.0, need_exhaust=True, fmtstub=True))
    for v in ("cat", "union", "repeat", "range", "pad", "commute"):
        import random as _r

        rr = _r.Random(seed * 31 + len(v))
        for ra, rb in ([(x, y) for x in (0, 1, 8, 31) for y in (0, 5, 16)] if thorough else [(rr.randrange(32), rr.randrange(32)), (8, 0)]):
            out.append(Cond(PROP, "c18.bls", make_bls, {"variant": v, "ra": ra, "rb": rb}, {"a": int, "b": int},
                            assumptions=["leaves 32*a + %d, 32*b + %d with a, b in [0, 2**40]" % (ra, rb)],
                            witness={"a": 3, "b": 40}, budget=240.0, need_exhaust=True))
    for v in ("cat", "union", "repeat"):
        out.append(Cond(PROP, "c18.bls-hash", make_bls_hash, {"variant": v}, {"a": int, "b": int}, kind="choice",
                        assumptions=["leaves in 0..12 (hash() realises)"], witness={"a": 3, "b": 4}, budget=300.0,
                        need_exhaust=True))
    for tag in ("type", "field", "padding", "constant", "rational", "boolean", "string", "set", "bls"):
        out.append(Cond(PROP, "c18.pairs", make_pairs, {"tag": tag}, {"i": int, "j": int}, kind="choice",
                        assumptions=["all ordered pairs of independently built %s objects from the descriptor list" % tag],
                        witness={"i": 0, "j": 0}, budget=900.0, need_exhaust=True))
    out.append(Cond(PROP, "c18.sequence", make_sequence, {}, {"i": int, "pos": int, "kind": int}, kind="choice",
                    assumptions=["every non-void type of the descriptor list embedded at each of 4 positions of a union / a "
                                 "structure that is then compared, hashed and queried"],
                    witness={"i": 0, "pos": 0, "kind": 1}, budget=600.0, need_exhaust=True))
    out.append(Cond(PROP, "c18.copies", make_copies, {}, {"k": int, "ai": int}, kind="choice",
                    assumptions=["6 list-returning accessors x struct / union / delimited / service request"],
                    witness={"k": 0, "ai": 0}, budget=120.0, need_exhaust=True))
    out.append(Cond(PROP, "c18.pickle-xproc", make_pickle_xproc, {}, {"dummy": int}, kind="choice",
                    assumptions=["every object of the descriptor list hashed and pickled in a second interpreter process with "
                                 "another PYTHONHASHSEED, unpickled here"], witness={"dummy": 0}, budget=300.0, need_exhaust=True))
    out.append(Cond(PROP, "c18.pickle", make_pickle, {}, {"i": int}, kind="choice",
                    assumptions=["pickle round trip of every object of the descriptor list (witness level: pickling is a C "
                                 "boundary)"], witness={"i": 0}, budget=300.0, need_exhaust=True))
    return out


def extra_evidence(tier: str) -> typing.Dict[str, typing.Any]:
    return {
        "bounds": {"symbolic": "rational numerators (unbounded), constant values (whole range of their type), leaves of bit "
                               "length sets (<= 2**40)", "descriptor list": "%d objects of 9 classes" % len(_zoo())},
        "outside": ["hash() of a symbolic number (realised by the engine: small choice domains)", "pickling (C boundary): run on "
                    "concrete representatives only", "type parameters that str() formats: choice domains"],
    }
