"""
Getting symbolic values through the text interface (DESIGN 2.4).

* MemDefinition - a real pydsdl DSDLDefinition whose constructor skips the file system: name, version, port-ID, path
  and text are given directly.  `read` is the real DSDLDefinition.read (cache, lookup filtering, DataTypeBuilder,
  parser, finalize, error-location injection).
* symbolic_env(env) - context manager replacing the name `DataTypeBuilder` looked up by pydsdl._dsdl_definition with a
  subclass of the real builder whose resolve_top_level_identifier returns the given expression values for reserved
  identifiers (and defers to the real implementation otherwise), and which accepts an extra directive `@capture
  <expr>` that records the evaluated value (the real builder rejects unknown directives, so `@capture` never reaches
  code under test).
"""

from __future__ import annotations

import contextlib
import typing
from pathlib import Path

MEMROOT = "/verif-mem"


def _classes() -> typing.Any:
    from pydsdl import _dsdl_definition

    return _dsdl_definition


class _Lazy:
    cls = None  # type: typing.Any


def MemDefinition(full_name: str, version: typing.Tuple[typing.Any, typing.Any], text: str,
                  fixed_port_id: typing.Optional[typing.Any] = None, root: str = MEMROOT,
                  plain_file_name: bool = False) -> typing.Any:
    """plain_file_name=True keeps version / port-ID out of the (fake) file name, so they may be symbolic."""
    from pydsdl._dsdl_definition import DSDLDefinition
    from pydsdl._serializable import Version

    if _Lazy.cls is None:

        class _Mem(DSDLDefinition):  # type: ignore
            def __init__(self, full_name: str, version: typing.Tuple[int, int], text: str,
                         fixed_port_id: typing.Optional[int], root: str, plain: bool) -> None:  # pylint: disable=super-init-not-called
                comps = full_name.split(".")
                self._root_namespace_path = Path(root) / comps[0]
                if plain:
                    base = "%s.dsdl" % comps[-1]
                else:
                    base = "%s.%d.%d.dsdl" % (comps[-1], version[0], version[1])
                    if fixed_port_id is not None:
                        base = "%d.%s" % (fixed_port_id, base)
                self._file_path = Path(root).joinpath(*comps[:-1]) / base
                self._text = text
                self._fixed_port_id = fixed_port_id
                self._version = Version(version[0], version[1])
                self._name = full_name
                self._cached_type = None

        _Lazy.cls = _Mem
    return _Lazy.cls(full_name, version, text, fixed_port_id, root, plain_file_name)


class Captures:
    def __init__(self) -> None:
        self.values = []  # type: typing.List[typing.Any]
        self.prints = []  # type: typing.List[typing.Tuple[int, str]]


@contextlib.contextmanager
def symbolic_env(env: typing.Mapping[str, typing.Any], cap: typing.Optional[Captures] = None) -> typing.Iterator[Captures]:
    from pydsdl import _dsdl_definition, _data_type_builder

    cap = cap or Captures()
    Real = _data_type_builder.DataTypeBuilder

    class SymBuilder(Real):  # type: ignore
        def resolve_top_level_identifier(self, name: str) -> typing.Any:
            if name in env:
                return env[name]
            return super().resolve_top_level_identifier(name)

        def on_directive(self, line_number: int, directive_name: str, associated_expression_value: typing.Any) -> None:
            if directive_name == "capture":
                cap.values.append(associated_expression_value)
                return None
            return super().on_directive(line_number, directive_name, associated_expression_value)

    saved = _dsdl_definition.DataTypeBuilder
    _dsdl_definition.DataTypeBuilder = SymBuilder  # type: ignore
    try:
        yield cap
    finally:
        _dsdl_definition.DataTypeBuilder = saved  # type: ignore


class _NativeGrammar:
    """
    Engine optimisation: parsimonious' Grammar.parse on a CONCRETE str is a pure function of that text, so it is
    executed natively (tracing off) instead of under the symbolic tracer (~50x faster); the resulting parse tree is
    the same object graph the traced run would build.  A symbolic text is parsed under the tracer as usual.
    """

    def __init__(self, real: typing.Any) -> None:
        self._real = real

    def parse(self, text: typing.Any, *a: typing.Any, **kw: typing.Any) -> typing.Any:
        from crosshair.tracers import NoTracing, is_tracing

        if is_tracing():
            with NoTracing():
                concrete = type(text) is str
                if concrete:
                    return self._real.parse(text, *a, **kw)
        return self._real.parse(text, *a, **kw)

    def __getattr__(self, name: str) -> typing.Any:
        return getattr(self._real, name)


@contextlib.contextmanager
def native_grammar() -> typing.Iterator[None]:
    from pydsdl import _parser

    real_get = _parser._get_grammar  # pylint: disable=protected-access
    proxy = _NativeGrammar(real_get())
    _parser._get_grammar = lambda: proxy  # type: ignore
    try:
        yield
    finally:
        _parser._get_grammar = real_get  # type: ignore


def native(fn: typing.Callable[..., typing.Any], *args: typing.Any) -> typing.Any:
    """Runs fn(*args) with tracing off (only for fully concrete arguments: the caller guarantees that)."""
    from crosshair.tracers import NoTracing, is_tracing

    if is_tracing():
        with NoTracing():
            return fn(*args)
    return fn(*args)


def read_text(text: str, env: typing.Optional[typing.Mapping[str, typing.Any]] = None,
              full_name: str = "ns.T", version: typing.Tuple[int, int] = (1, 0),
              fixed_port_id: typing.Optional[int] = None, lookup: typing.Sequence[typing.Any] = (),
              allow_unregulated: bool = True, cap: typing.Optional[Captures] = None) -> typing.Tuple[typing.Any, Captures]:
    """Reads one in-memory definition with the real reader; returns (composite, captures)."""
    d = MemDefinition(full_name, version, text, fixed_port_id)
    with symbolic_env(env or {}, cap) as c, native_grammar():
        t = d.read(list(lookup), [], lambda line, s: c.prints.append((line, s)), allow_unregulated)
    return t, c


def warm() -> None:
    """Loads the grammar (an lru_cache) outside of tracing so that every path sees the same state."""
    from pydsdl import _parser

    _parser._get_grammar()  # pylint: disable=protected-access
