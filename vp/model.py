"""
Attribute-by-attribute summaries of pydsdl type models (used to compare models without relying on pydsdl's own
approximate __eq__), and scratch namespaces on disk.
"""

from __future__ import annotations

import atexit
import os
import shutil
import tempfile
import typing
from pathlib import Path


def summary(t: typing.Any, deep: bool = True) -> typing.Any:
    """A plain, comparable description of a composite type."""
    import pydsdl

    if isinstance(t, pydsdl.ServiceType):
        return ("service", t.full_name, tuple(t.version), t.fixed_port_id, t.deprecated, t.doc,
                summary(t.request_type, deep), summary(t.response_type, deep))
    kind = "delimited" if isinstance(t, pydsdl.DelimitedType) else "sealed"
    inner = t.inner_type
    shape = "union" if isinstance(inner, pydsdl.UnionType) else "struct"
    attrs = []
    for a in t.attributes:
        if isinstance(a, pydsdl.Constant):
            attrs.append(("const", str(a.data_type), a.name, str(a.value), a.doc))
        elif isinstance(a, pydsdl.PaddingField):
            attrs.append(("pad", str(a.data_type), "", "", a.doc))
        else:
            nested = None
            dt = a.data_type
            while isinstance(dt, pydsdl.ArrayType):
                dt = dt.element_type
            if deep and isinstance(dt, pydsdl.CompositeType):
                nested = summary(dt, deep)
            attrs.append(("field", str(a.data_type), a.name, nested, a.doc))
    bls = t.bit_length_set
    return (kind, shape, t.full_name, tuple(t.version), t.fixed_port_id, t.deprecated, t.has_parent_service, t.doc,
            tuple(attrs), t.extent, bls.min, bls.max, t.alignment_requirement)


def outcome(fn: typing.Callable[[], typing.Any]) -> typing.Any:
    """('ok', value) or ('error', class name, path, line) for pydsdl errors; other exceptions propagate."""
    import pydsdl

    try:
        return ("ok", fn())
    except pydsdl.FrontendError as ex:  # Error base class is exported as FrontendError
        return ("error", type(ex).__name__, str(ex.path) if ex.path else None, ex.line)


_scratch = []  # type: typing.List[str]


def scratch_dir(tag: str) -> Path:
    d = tempfile.mkdtemp(prefix="vp_%s_" % tag)
    _scratch.append(d)
    return Path(d)


def _cleanup() -> None:
    for d in _scratch:
        shutil.rmtree(d, ignore_errors=True)


atexit.register(_cleanup)


def write_tree(root: Path, files: typing.Mapping[str, str]) -> None:
    for rel, text in files.items():
        p = root / rel
        p.parent.mkdir(parents=True, exist_ok=True)
        with open(p, "w", newline="") as f:
            f.write(text)


_ = os
