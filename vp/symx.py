"""
E1 `symx`: path exploration of the real pydsdl code with symbolic inputs.

Drives crosshair.core.explore_paths directly (the loop used by `crosshair cover`): no contracts, no
short-circuiting, no audit wall.  A *condition* is a harness factory applied to a concrete scaffold; the
harness's arguments are the symbolic variables.  The verdict EXHAUSTED is issued only when CrossHair's
decision tree reports exhaustion, every path ended CONFIRMED (no solver unknowns / path timeouts /
ignored attempts) and no violation was seen.

Harness protocol:  harness(**symbolic) returns
    None   - assumption not met (path is outside the stated domain)
    True   - assertion reached and held
    other  - violation (False or a string describing it)
  an escaping `Exception` is a violation too.  BaseExceptions that are not Exceptions belong to CrossHair.
"""

from __future__ import annotations

import dataclasses
import importlib
import inspect
import json
import math
import os
import sys
import time
import traceback
import typing

SKIP = None
REPO = os.environ.get("VERIF_REPO", "/repo")


@dataclasses.dataclass
class Cond:
    prop: str
    group: str
    factory: typing.Callable[..., typing.Callable[..., typing.Any]]
    scaffold: typing.Dict[str, typing.Any]
    sig: typing.Dict[str, type]
    kind: str = "symbolic"  # "symbolic" | "choice"
    assumptions: typing.Sequence[str] = ()
    stubs: typing.Sequence[str] = ()
    witness: typing.Optional[typing.Dict[str, typing.Any]] = None
    budget: float = 60.0
    path_timeout: float = 20.0
    fmtstub: bool = False
    key: typing.Optional[str] = None  # name of a module-level function (args, detail) -> finding key
    need_exhaust: bool = False  # when True a PARTIAL verdict makes the check exit 3 (inconclusive)

    @property
    def name(self) -> str:
        inner = ",".join("%s=%s" % (k, _short(v)) for k, v in self.scaffold.items())
        return "%s[%s]" % (self.group, inner)

    def ref(self) -> typing.Dict[str, typing.Any]:
        return {
            "module": self.factory.__module__,
            "factory": self.factory.__name__,
            "scaffold": self.scaffold,
        }

    def build(self) -> typing.Callable[..., typing.Any]:
        return self.factory(**self.scaffold)


def _short(v: typing.Any) -> str:
    s = json.dumps(v, separators=(",", ":"), default=str) if not isinstance(v, str) else v
    return s if len(s) <= 60 else s[:57] + "..."


# ------------------------------------------------------------------------------------------------------------------
# JSON encoding of realised arguments


def enc(v: typing.Any) -> typing.Any:
    if isinstance(v, bool) or v is None:
        return v
    if isinstance(v, int):
        return {"int": str(int(v))} if abs(v) > 2**53 else int(v)
    if isinstance(v, (bytes, bytearray)):
        return {"bytes": bytes(v).hex()}
    if isinstance(v, str):
        return {"str": [ord(c) for c in v]}
    if isinstance(v, float):
        return {"float": repr(float(v))}
    if isinstance(v, (list, tuple)):
        return {"list": [enc(x) for x in v]}
    if isinstance(v, dict):
        return {"dict": [[enc(k), enc(x)] for k, x in v.items()]}
    return {"repr": repr(v)}


def dec(v: typing.Any) -> typing.Any:
    if isinstance(v, dict):
        if "int" in v:
            return int(v["int"])
        if "bytes" in v:
            return bytes.fromhex(v["bytes"])
        if "str" in v:
            return "".join(chr(c) for c in v["str"])
        if "float" in v:
            return float(v["float"])
        if "list" in v:
            return [dec(x) for x in v["list"]]
        if "dict" in v:
            return {dec(k): dec(x) for k, x in v["dict"]}
        raise ValueError("cannot decode %r" % v)
    return v


# ------------------------------------------------------------------------------------------------------------------
# concrete execution (witness runs and replays): plain CPython, no tracer


def cond_from_ref(ref: typing.Dict[str, typing.Any]) -> typing.Callable[..., typing.Any]:
    mod = importlib.import_module(ref["module"])
    return getattr(mod, ref["factory"])(**ref["scaffold"])


def run_concrete(
    harness: typing.Callable[..., typing.Any], args: typing.Dict[str, typing.Any], profile: bool = False
) -> typing.Tuple[str, str, typing.List[str]]:
    """Returns (outcome, detail, functions) with outcome in {"ok", "skip", "violation"}."""
    seen = set()  # type: typing.Set[str]
    prefix = os.path.join(REPO, "pydsdl") + os.sep

    def prof(frame: typing.Any, event: str, _arg: typing.Any) -> None:
        if event == "call":
            co = frame.f_code
            if co.co_filename.startswith(prefix) and "third_party" not in co.co_filename and (co.co_flags & 1):
                seen.add("%s:%s" % (co.co_filename[len(prefix) :], co.co_qualname))

    if profile:
        sys.setprofile(prof)
    try:
        try:
            r = harness(**args)
        finally:
            if profile:
                sys.setprofile(None)
    except Exception as ex:  # pylint: disable=broad-except
        return "violation", "exception %s: %s" % (type(ex).__name__, _trunc(str(ex))), sorted(seen)
    if r is None:
        return "skip", "", sorted(seen)
    if r is True:
        return "ok", "", sorted(seen)
    return "violation", _trunc(str(r)), sorted(seen)


def _trunc(s: str, n: int = 400) -> str:
    return s if len(s) <= n else s[:n] + "..."


# ------------------------------------------------------------------------------------------------------------------
# symbolic exploration (runs inside a worker process)

_z3_stats = {"queries": 0, "time": 0.0}
_patched_z3 = False


def _patch_z3() -> None:
    global _patched_z3
    if _patched_z3:
        return
    import z3

    orig = z3.Solver.check

    def check(self: typing.Any, *a: typing.Any) -> typing.Any:
        t = time.perf_counter()
        try:
            return orig(self, *a)
        finally:
            _z3_stats["queries"] += 1
            _z3_stats["time"] += time.perf_counter() - t

    z3.Solver.check = check  # type: ignore
    _patched_z3 = True


_FMT_RE = None


def _percent_format(template: typing.Any, other: typing.Any) -> typing.Any:
    """
    `template % other` for str: every argument is converted with str()/repr() (or realised, for numeric
    conversions) under tracing, then interpolated concretely.  CrossHair's stock model deep-copies and realises the
    whole argument object graph instead, which for pydsdl (every __str__ uses %-formatting and type equality goes
    through str()) costs a deep copy of the type graph per call.  Semantics are those of CPython.
    """
    global _FMT_RE
    import re
    from crosshair.core import realize, deep_realize
    from crosshair.tracers import NoTracing

    with NoTracing():
        if _FMT_RE is None:
            _FMT_RE = re.compile(r"%(?:\((\w+)\))?([#0\- +]*)(\*|\d+)?(?:\.(\*|\d+))?([hlL])?([diouxXeEfFgGcrsa%])")
    tmpl = realize(template)
    with NoTracing():
        specs = [m for m in _FMT_RE.finditer(tmpl) if m.group(6) != "%"]
        simple = all(m.group(1) is None and m.group(3) != "*" and m.group(4) != "*" for m in specs)
        is_tuple = type(other) is tuple
    if not simple:
        with NoTracing():
            return str.__mod__(tmpl, deep_realize(other))
    args = other if is_tuple else (other,)
    if len(args) != len(specs):
        with NoTracing():
            return str.__mod__(tmpl, deep_realize(other))  # let CPython raise the proper TypeError
    conv = []
    for m, a in zip(specs, args):
        c = m.group(6)
        if c == "s":
            conv.append(realize(str(a)))
        elif c == "r":
            conv.append(realize(repr(a)))
        elif c == "a":
            conv.append(realize(ascii(a)))
        else:
            conv.append(realize(a))
    with NoTracing():
        out = []
        pos = 0
        k = 0
        for m in _FMT_RE.finditer(tmpl):
            out.append(tmpl[pos : m.start()])
            pos = m.end()
            if m.group(6) == "%":
                out.append("%")
                continue
            spec = m.group(0)
            if m.group(6) in "ra":
                spec = spec[:-1] + "s"
            out.append(str.__mod__(spec, (conv[k],)))
            k += 1
        out.append(tmpl[pos:])
        return "".join(out)


def _install_percent(fmtstub: bool) -> typing.Callable[[], None]:
    """
    Installs the %-formatting model above.  With fmtstub=True (opt-in per condition) a message-formatting stub is
    added: when an argument carries a symbolic value the un-interpolated template is returned (pydsdl formats the
    offending number into every error message; interpolating would realise it and enumerate the rejected region).
    """
    from crosshair import core
    from crosshair.tracers import NoTracing
    import fractions as _fr

    prev = core._PATCH_REGISTRATIONS.get(str.__mod__)  # pylint: disable=protected-access

    def is_sym(x: typing.Any, depth: int = 0) -> bool:
        with NoTracing():
            t = type(x)
            if t in (int, str, bool, float, bytes, type(None)):
                return False
            if t in (tuple, list):
                return any(is_sym(y, depth) for y in x)
            if t.__module__.startswith("crosshair"):
                return True
            if depth >= 3:
                return False
            if t is _fr.Fraction:
                return is_sym(x._numerator, depth + 1) or is_sym(x._denominator, depth + 1)  # type: ignore
            if t.__module__.startswith("pydsdl._expression"):
                # expression values wrap a native value in `_value`
                return is_sym(getattr(x, "_value", None), depth + 1)
            return False

    def patched(self: typing.Any, other: typing.Any) -> typing.Any:
        if fmtstub and (is_sym(other) or is_sym(self)):
            return self if not is_sym(self) else "<symbolic template>"
        return _percent_format(self, other)

    core._PATCH_REGISTRATIONS[str.__mod__] = patched  # pylint: disable=protected-access

    # f-strings and literal-template %-formatting (compiled to FORMAT_VALUE by CPython >= 3.10) go through
    # CrossHair's FormatStashingValue; with the stub on, symbolic-bearing values are rendered as a placeholder.
    from crosshair import opcode_intercept as _oi

    FSV = _oi.FormatStashingValue
    saved = (FSV.__str__, FSV.__format__, FSV.__repr__)
    if fmtstub:

        def _s(self: typing.Any) -> str:
            if is_sym(self.value):
                self.formatted = "<symbolic>"
                return ""
            return saved[0](self)

        def _f(self: typing.Any, fmt: str) -> str:
            if is_sym(self.value):
                self.formatted = "<symbolic>"
                return ""
            return saved[1](self, fmt)

        def _r(self: typing.Any) -> str:
            if is_sym(self.value):
                self.formatted = "<symbolic>"
                return ""
            return saved[2](self)

        FSV.__str__, FSV.__format__, FSV.__repr__ = _s, _f, _r  # type: ignore

    def undo() -> None:
        FSV.__str__, FSV.__format__, FSV.__repr__ = saved  # type: ignore
        if prev is None:
            core._PATCH_REGISTRATIONS.pop(str.__mod__, None)  # pylint: disable=protected-access
        else:
            core._PATCH_REGISTRATIONS[str.__mod__] = prev  # pylint: disable=protected-access

    return undo


def explore(cond: Cond, budget: typing.Optional[float] = None, max_cex: int = 25) -> typing.Dict[str, typing.Any]:
    from crosshair.core import explore_paths, deep_realize
    from crosshair.core_and_libs import standalone_statespace  # noqa: F401  (registers library patches)
    from crosshair.options import DEFAULT_OPTIONS, AnalysisOptionSet
    from crosshair.statespace import RootNode, VerificationStatus
    from crosshair.tracers import NoTracing

    _patch_z3()
    q0, t0 = _z3_stats["queries"], _z3_stats["time"]
    started = time.perf_counter()
    harness = cond.build()
    budget = float(budget if budget is not None else cond.budget)

    res = {
        "name": cond.name,
        "group": cond.group,
        "prop": cond.prop,
        "kind": cond.kind,
        "ref": cond.ref(),
        "paths": 0,
        "reached": 0,
        "skipped": 0,
        "decisions": 0,
        "unknown_paths": 0,
        "ignored_paths": 0,
        "cex": [],
        "spurious": 0,
        "functions": [],
        "witness": None,
        "representative": None,
    }  # type: typing.Dict[str, typing.Any]

    # (a) concrete witness run: the assertion must be reachable
    if cond.witness is not None:
        out, detail, funcs = run_concrete(harness, cond.witness, profile=True)
        res["witness"] = {"args": {k: enc(v) for k, v in cond.witness.items()}, "outcome": out, "detail": detail}
        res["functions"] = funcs

    if cond.witness is not None and res["witness"]["outcome"] == "violation":
        # a concrete run of the real code already violates the assertion: report it, skip the symbolic search
        res["cex"] = [{"args": {k: enc(v) for k, v in cond.witness.items()},
                       "symbolic_detail": "witness run: " + res["witness"]["detail"], "detail": res["witness"]["detail"]}]
        res.update({"verdict": "CEX", "exhausted_tree": False, "solver_queries": 0, "solver_time_s": 0.0,
                    "wall_s": round(time.perf_counter() - started, 3), "budget_s": budget})
        return res

    params = [
        inspect.Parameter(n, inspect.Parameter.POSITIONAL_OR_KEYWORD, annotation=t) for n, t in cond.sig.items()
    ]
    sig = inspect.Signature(params)
    options = DEFAULT_OPTIONS.overlay(
        AnalysisOptionSet(
            per_condition_timeout=budget,
            per_path_timeout=cond.path_timeout,
            max_iterations=sys.maxsize,
            max_uninteresting_iterations=sys.maxsize,
        )
    )
    root = RootNode()
    state = {"exhausted": False}

    def fn(bound: inspect.BoundArguments) -> typing.Any:
        return harness(*bound.args, **bound.kwargs)

    def on_path_complete(space, pre_args, _post_args, ret, exc, _exc_stack):  # type: ignore
        res["paths"] += 1
        with NoTracing():
            res["decisions"] += len(space.choices_made)
        bad = None
        if exc is not None:
            with NoTracing():
                bad = "exception %s: %s" % (type(exc).__name__, _trunc(_safe_str(exc)))
                if os.environ.get("VERIF_DEBUG") and _exc_stack is not None:
                    fr = _exc_stack.format()
                    fr = [x for x in fr if "/crosshair/" not in x and "/lib/python3" not in x][-14:]
                    sys.stderr.write("".join(fr) + bad + "\n")
        else:
            with NoTracing():
                # identity tests only: never compare a symbolic value
                if ret is None:
                    res["skipped"] += 1
                elif ret is True:
                    res["reached"] += 1
                else:
                    res["reached"] += 1
                    bad = "returned %s" % _trunc(_safe_str(ret))
        want_rep = res["representative"] is None and ret is True
        if bad is None and not want_rep:
            return False
        space.detach_path()
        realized = deep_realize(pre_args)
        with NoTracing():
            args = {k: realized.arguments[k] for k in cond.sig}
            if bad is None:
                res["representative"] = {k: enc(v) for k, v in args.items()}
                return False
            res["cex"].append({"args": {k: enc(v) for k, v in args.items()}, "symbolic_detail": bad})
            return len(res["cex"]) >= max_cex

    undo = _install_percent(cond.fmtstub)
    try:
        # explore_paths does not expose exhaustion; recover it by wrapping bubble_status
        from crosshair.statespace import StateSpace

        orig_bubble = StateSpace.bubble_status

        def bubble(self, analysis):  # type: ignore
            st = analysis.verification_status
            if st is None:
                res["ignored_paths"] += 1
            elif st == VerificationStatus.UNKNOWN:
                res["unknown_paths"] += 1
            out = orig_bubble(self, analysis)
            state["exhausted"] = bool(out[1])
            return out

        StateSpace.bubble_status = bubble  # type: ignore
        try:
            explore_paths(fn, sig, options, root, on_path_complete)
        finally:
            StateSpace.bubble_status = orig_bubble  # type: ignore
    finally:
        if undo:
            undo()

    # a concrete witness that violates the assertion is a counterexample in its own right
    if cond.witness is not None and res["witness"]["outcome"] == "violation" and not res["cex"]:
        res["cex"].append({"args": {k: enc(v) for k, v in cond.witness.items()},
                           "symbolic_detail": "witness run: " + res["witness"]["detail"]})
    # replay each counterexample in plain CPython against the real code
    confirmed = []
    for c in res["cex"]:
        out, detail, _ = run_concrete(cond.build(), {k: dec(v) for k, v in c["args"].items()})
        if out == "violation":
            c["detail"] = detail
            confirmed.append(c)
        else:
            res["spurious"] += 1
            res.setdefault("spurious_samples", [])
            if len(res["spurious_samples"]) < 3:
                res["spurious_samples"].append({"args": c["args"], "symbolic_detail": c["symbolic_detail"]})
    res["cex"] = confirmed
    res["exhausted_tree"] = state["exhausted"]
    if confirmed:
        verdict = "CEX"
    elif cond.witness is not None and res["witness"]["outcome"] != "ok":
        verdict = "WITNESS-FAILED"
    elif res["reached"] == 0 and (state["exhausted"] or res["paths"] >= 20):
        verdict = "VACUOUS"
    elif state["exhausted"] and res["unknown_paths"] == 0 and res["ignored_paths"] == 0 and res["spurious"] == 0:
        verdict = "EXHAUSTED"
    else:
        verdict = "PARTIAL"
    res["verdict"] = verdict
    res["solver_queries"] = _z3_stats["queries"] - q0
    res["solver_time_s"] = round(_z3_stats["time"] - t0, 3)
    res["wall_s"] = round(time.perf_counter() - started, 3)
    res["budget_s"] = budget
    return res


def _safe_str(x: typing.Any) -> str:
    try:
        from crosshair.core import realize
        from crosshair.tracers import ResumedTracing

        with ResumedTracing():
            return str(realize(str(x)))
    except BaseException as ex:  # pylint: disable=broad-except
        return "<unprintable %s>" % type(ex).__name__


def run_one(cond: Cond, budget: typing.Optional[float] = None) -> typing.Dict[str, typing.Any]:
    if sys.getrecursionlimit() < 20000:
        sys.setrecursionlimit(20000)
    try:
        return explore(cond, budget)
    except BaseException as ex:  # pylint: disable=broad-except
        return {
            "name": cond.name,
            "group": cond.group,
            "prop": cond.prop,
            "kind": cond.kind,
            "ref": cond.ref(),
            "verdict": "ERROR",
            "error": "%s: %s\n%s" % (type(ex).__name__, ex, traceback.format_exc()[-1500:]),
            "paths": 0,
            "reached": 0,
            "decisions": 0,
            "cex": [],
            "solver_queries": 0,
            "solver_time_s": 0.0,
            "wall_s": 0.0,
            "functions": [],
        }


def pick(x: typing.Any, lo: int, hi: int) -> typing.Optional[int]:
    """
    Choice variable: returns the concrete Python int equal to x if lo <= x <= hi (the engine forks once per value),
    else None.  After this the value is an ordinary int, so the code under test runs concretely on it.
    """
    if not lo <= x <= hi:
        return None
    for v in range(lo, hi):
        if x == v:
            return v
    return hi


def ceil_div(a: int, b: int) -> int:
    return -((-a) // b)


def isfinite(x: float) -> bool:
    return math.isfinite(x)
