"""
E2 `lemma`: SMT obligations that lift an E1 result to every repetition count.

For a divisor d a subset S of Z_d is a d-bit vector (bit i set <=> i in S).  A + S (sumset) is the OR over
s of (S[s] ? rotl(A, s) : 0).  jS is the j-fold sumset, 0S = {0}.  U_m is the union of jS for j <= m.

  L(d):  for every non-empty S:  dS == (2d)S
         => by (j+1)S = jS + S (rewriting):  jS == (j+d)S for every j >= d
         => kS == (d + k mod d)S for every k >= 2d, which is the reduction applied by the code under test and by
            the oracle O.reduce_count.
  R(d):  for every non-empty S:  U_{d-1} == U_d
         => U_{m+1} = U_m | (U_m + S), so the chain is constant from d-1 on: U_k == U_r for all k, r >= d-1.

Each obligation asserts the negation; `unsat` = discharged, `sat` = violated (the model is the counterexample
set S), anything else (unknown / timeout / error) = inconclusive.
"""

from __future__ import annotations

import subprocess
import tempfile
import time
import typing


def _sumset(z3: typing.Any, A: typing.Any, S: typing.Any, d: int) -> typing.Any:
    out = z3.BitVecVal(0, d)
    for s in range(d):
        bit = z3.Extract(s, s, S) == z3.BitVecVal(1, 1)
        rot = A if s == 0 else z3.Concat(z3.Extract(d - 1 - s, 0, A), z3.Extract(d - 1, d - s, A))
        out = out | z3.If(bit, rot, z3.BitVecVal(0, d))
    return out


def obligation(kind: str, d: int) -> typing.Tuple[typing.Any, typing.Any]:
    import z3

    S = z3.BitVec("S", d)
    one = z3.BitVecVal(1, d)
    solver = z3.Solver()
    solver.add(S != z3.BitVecVal(0, d))
    if kind == "L":
        a = one  # 0S = {0}
        for _ in range(d):
            a = _sumset(z3, a, S, d)
        b = a
        for _ in range(d):
            b = _sumset(z3, b, S, d)
        solver.add(a != b)
    elif kind == "R":
        u = one
        for _ in range(d - 1):
            u = u | _sumset(z3, u, S, d)
        u2 = u | _sumset(z3, u, S, d)
        solver.add(u != u2)
    else:
        raise ValueError(kind)
    return solver, S


def discharge(kind: str, d: int, timeout_s: float, cross: bool) -> typing.Dict[str, typing.Any]:
    import z3

    name = "%s(d=%d)" % (kind, d)
    solver, S = obligation(kind, d)
    solver.set(timeout=int(timeout_s * 1000))
    t = time.perf_counter()
    r = str(solver.check())
    el = time.perf_counter() - t
    out = {"name": name, "kind": kind, "d": d, "solver": "z3 " + z3.get_version_string(), "result": r,
           "time_s": round(el, 3), "logic": "QF_BV", "statement": _statement(kind, d)}  # type: typing.Dict[str, typing.Any]
    if r == "unsat":
        out["status"] = "discharged"
    elif r == "sat":
        m = solver.model()
        out["status"] = "violated"
        out["model"] = {"S": [i for i in range(d) if (m[S].as_long() >> i) & 1]}
    else:
        out["status"] = "inconclusive(%s)" % r
    if cross and out["status"] == "discharged":
        smt2 = "(set-logic QF_BV)\n" + solver.to_smt2()
        cr, ct = _cvc5(smt2, timeout_s)
        out["cross_check"] = {"solver": "cvc5 (binary)", "result": cr, "time_s": round(ct, 3)}
        if cr == "sat":
            out["status"] = "inconclusive(solvers disagree)"
        elif cr != "unsat":
            out["cross_check"]["note"] = "cvc5 gave no verdict; z3 verdict stands alone"
    return out


def _statement(kind: str, d: int) -> str:
    if kind == "L":
        return "for all non-empty S subset of Z_%d: %d-fold sumset == %d-fold sumset" % (d, d, 2 * d)
    return "for all non-empty S subset of Z_%d: union of j-fold sumsets j<=%d == j<=%d" % (d, d - 1, d)


def _cvc5(smt2: str, timeout_s: float) -> typing.Tuple[str, float]:
    t = time.perf_counter()
    with tempfile.NamedTemporaryFile("w", suffix=".smt2", delete=True) as f:
        f.write(smt2)
        f.flush()
        try:
            p = subprocess.run(["cvc5", "--tlimit=%d" % int(timeout_s * 1000), f.name], capture_output=True,
                               text=True, timeout=timeout_s + 10, check=False)
            text = (p.stdout + p.stderr).strip()
        except (OSError, subprocess.TimeoutExpired) as ex:
            return "error: %s" % type(ex).__name__, time.perf_counter() - t
    if "(error" in text:
        return "error: " + text[:200], time.perf_counter() - t
    first = text.splitlines()[0].strip() if text else ""
    return (first if first in ("sat", "unsat", "unknown") else "unknown: " + text[:100]), time.perf_counter() - t


def run(ds: typing.Iterable[int], timeout_s: float, cross_upto: int, jobs: int) -> typing.List[typing.Dict[str, typing.Any]]:
    import multiprocessing as mp

    work = [(k, d, timeout_s, d <= cross_upto) for d in ds for k in ("L", "R")]
    with mp.get_context("fork").Pool(min(jobs, len(work))) as pool:
        return pool.starmap(discharge, work, chunksize=1)
