"""
Builders for real pydsdl type objects (always through the real constructors) and the shared type catalogue.

A type is described by a JSON-able *spec*:
    "bool" | "byte" | "utf8" | "u<N>" (saturated) | "tu<N>" (truncated) | "i<N>" | "f16|f32|f64" | "tf32" ...
    "void<N>"
    ["farr", elem, cap]            fixed-length array
    ["varr", elem, cap]            variable-length array
    ["struct", [field specs...]]                     sealed structure
    ["union", [field specs...]]                      sealed union
    ["delim", inner_spec, extent | null]             delimited (extent None -> inner extent)
`cap` / `extent` may be a string naming a parameter, resolved through the `params` mapping (symbolic values).
"""

from __future__ import annotations

import typing
from pathlib import Path

Spec = typing.Any
_counter = [0]


def prim(spec: str) -> typing.Any:
    import pydsdl

    S, T = pydsdl.PrimitiveType.CastMode.SATURATED, pydsdl.PrimitiveType.CastMode.TRUNCATED
    if spec == "bool":
        return pydsdl.BooleanType()
    if spec == "byte":
        return pydsdl.ByteType()
    if spec == "utf8":
        return pydsdl.UTF8Type()
    if spec.startswith("void"):
        return pydsdl.VoidType(int(spec[4:]))
    if spec.startswith("tu"):
        return pydsdl.UnsignedIntegerType(int(spec[2:]), T)
    if spec.startswith("tf"):
        return pydsdl.FloatType(int(spec[2:]), T)
    if spec.startswith("u"):
        return pydsdl.UnsignedIntegerType(int(spec[1:]), S)
    if spec.startswith("i"):
        return pydsdl.SignedIntegerType(int(spec[1:]), S)
    if spec.startswith("f"):
        return pydsdl.FloatType(int(spec[1:]), S)
    raise ValueError(spec)


def composite(
    kind: str,
    fields: typing.Sequence[typing.Any],
    name: str = "",
    version: typing.Tuple[typing.Any, typing.Any] = (1, 0),
    fixed_port_id: typing.Any = None,
    deprecated: bool = False,
    has_parent_service: bool = False,
    constants: typing.Sequence[typing.Any] = (),
) -> typing.Any:
    """fields: list of type objects (names f0, f1, ...; void types become padding fields)."""
    import pydsdl

    if not name:
        _counter[0] += 1
        name = "ns.T%d" % _counter[0]
    attrs = []  # type: typing.List[typing.Any]
    for i, t in enumerate(fields):
        if isinstance(t, pydsdl.VoidType):
            attrs.append(pydsdl.PaddingField(t))
        else:
            attrs.append(pydsdl.Field(t, "f%d" % i))
    attrs.extend(constants)
    cls = pydsdl.UnionType if kind == "union" else pydsdl.StructureType
    comps = name.split(".")
    if has_parent_service:
        path = Path(*comps[:-1])
    else:
        path = Path(*comps)
    path = path.with_name(path.name + ".%s.%s.dsdl" % (0, 0))  # file name is irrelevant to the constructors
    return cls(
        name=name,
        version=pydsdl.Version(version[0], version[1]),
        attributes=attrs,
        deprecated=deprecated,
        fixed_port_id=fixed_port_id,
        source_file_path=path,
        has_parent_service=has_parent_service,
    )


def build(spec: Spec, params: typing.Optional[typing.Mapping[str, typing.Any]] = None) -> typing.Any:
    import pydsdl

    params = params or {}

    def val(x: typing.Any) -> typing.Any:
        return params[x] if isinstance(x, str) else x

    if isinstance(spec, str):
        return prim(spec)
    op = spec[0]
    if op == "farr":
        return pydsdl.FixedLengthArrayType(build(spec[1], params), val(spec[2]))
    if op == "varr":
        return pydsdl.VariableLengthArrayType(build(spec[1], params), val(spec[2]))
    if op in ("struct", "union"):
        return composite(op, [build(f, params) for f in spec[1]])
    if op == "delim":
        inner = build(spec[1], params)
        ext = val(spec[2]) if len(spec) > 2 and spec[2] is not None else inner.extent
        return pydsdl.DelimitedType(inner, ext)
    raise ValueError(spec)


def spec_str(spec: Spec) -> str:
    if isinstance(spec, str):
        return spec
    if spec[0] in ("farr", "varr"):
        return "%s[%s%s]" % (spec_str(spec[1]), "" if spec[0] == "farr" else "<=", spec[2])
    if spec[0] in ("struct", "union"):
        return "%s{%s}" % (spec[0][0], ",".join(spec_str(f) for f in spec[1]))
    return "delim(%s,%s)" % (spec_str(spec[1]), spec[2] if len(spec) > 2 else None)


# ------------------------------------------------------------------------------------------------------------------
# Catalogue of shapes shared by the layout / serdes / offsets harnesses (scaffolding).

LEAVES = ["bool", "u3", "u8", "i13", "u16", "i64", "f16", "f32", "f64", "tu5", "void3"]

CORE = [
    ["struct", []],
    ["struct", ["u8"]],
    ["struct", ["u3", "u8"]],
    ["struct", ["bool", ["struct", ["u16"]], "u3"]],
    ["struct", ["u3", ["varr", "u8", 3], "i13"]],
    ["struct", ["u8", ["varr", ["struct", ["u3", "u16"]], 2], "bool"]],
    ["struct", ["void3", "u5", ["farr", "u16", 2]]],
    ["union", ["u8", "u16"]],
    ["union", ["u3", ["struct", ["u16", "u8"]], ["varr", "u8", 2]]],
    ["struct", ["u8", ["union", ["bool", ["farr", "u8", 2]]], "u16"]],
    ["delim", ["struct", ["u8", "u16"]], None],
    ["struct", ["u3", ["delim", ["struct", ["u8"]], 32], "u8"]],
    ["struct", [["farr", ["delim", ["struct", ["u8"]], 16], 2], "u8"]],
    ["struct", [["varr", ["delim", ["union", ["u8", "u16"]], 32], 2], "bool"]],
    ["struct", ["f16", "bool", "f32"]],
    ["struct", [["varr", "byte", 4], ["varr", "utf8", 3]]],
    ["struct", [["delim", ["struct", [["delim", ["struct", ["u8"]], 16], "u8"]], 64], "u8"]],
]

EXTRA = [
    ["struct", ["i64", "u3", ["struct", []], "u8"]],
    ["struct", [["farr", "bool", 9], "u8"]],
    ["struct", [["varr", "bool", 9], ["struct", ["u8"]]]],
    ["union", [["struct", []], "u8", "i13", ["farr", "u3", 3]]],
    ["union", [["delim", ["struct", ["u8"]], 24], ["varr", "u16", 2]]],
    ["delim", ["union", ["u8", ["struct", ["u16", "bool"]]]], 64],
    ["struct", [["delim", ["struct", [["varr", "u8", 2]]], 48], ["delim", ["struct", ["bool"]], 8]]],
    ["struct", ["u5", ["struct", ["u3", ["struct", ["bool", ["struct", ["u8"]]]]]], "u3"]],
    ["struct", [["varr", ["varr", "u8", 2], 2], "u8"]],
    ["struct", [["farr", ["union", ["u8", "u16"]], 2], "u3"]],
    ["delim", ["struct", [["delim", ["struct", ["u8"]], 16], "u8"]], 64],
    ["struct", ["f64", "void7", "tu9", ["farr", "i13", 2]]],
]


def catalogue(tier: str, seed: int) -> typing.List[Spec]:
    import random

    if tier == "thorough":
        return CORE + EXTRA
    rnd = random.Random(seed)
    return CORE + rnd.sample(EXTRA, 3)


def random_shape(rnd: typing.Any, depth: int = 2, top: bool = True) -> Spec:
    """Seeded random composite spec with small expansions (for exact-set / offset conditions)."""
    leaves = ["bool", "u3", "u4", "u5", "u8", "u12", "i13", "u16", "tu7", "void3", "void5", "u24"]

    def scalar(d: int) -> Spec:
        r = rnd.random()
        if d <= 0 or r < 0.55:
            return rnd.choice(leaves)
        return composite_(d - 1)

    def member(d: int) -> Spec:
        r = rnd.random()
        e = scalar(d)
        if isinstance(e, str) and e.startswith("void"):
            return e
        if r < 0.25:
            return ["varr", e, rnd.choice([1, 2, 3])]
        if r < 0.4:
            return ["farr", e, rnd.choice([1, 2, 3])]
        return e

    def composite_(d: int) -> Spec:
        r = rnd.random()
        if r < 0.2:
            fields = [member(d) for _ in range(rnd.choice([2, 2, 3]))]
            fields = [f if not (isinstance(f, str) and f.startswith("void")) else "u8" for f in fields]
            c = ["union", fields]  # type: Spec
        else:
            fields = [member(d) for _ in range(rnd.choice([1, 2, 3, 3, 4]))]
            if rnd.random() < 0.35:
                # the shape that exercises inter-field padding: variable sub-byte prefix, composite, sub-byte tail
                fields = [["varr", rnd.choice(["u4", "u12", "bool", "u3", "tu7"]), rnd.choice([1, 2, 3])],
                          composite_(max(d - 1, 0)) if d > 0 else ["struct", ["u8"]]] + fields[:2]
            c = ["struct", fields]
        if rnd.random() < 0.25:
            return ["delim", c, rnd.choice([None, None, 64, 128])]
        return c

    for _ in range(100):
        c = composite_(depth)
        if c[0] == "delim" and c[2] is not None:
            from .oracle import layout as _L

            if c[2] < _L.interval(c[1], {})[1]:
                c = ["delim", c[1], None]
        try:
            from .oracle import layout as _L

            if _nested_ok(c) and len(_L.enumerate_set(c)) <= 200:
                return c
        except Exception:  # pylint: disable=broad-except
            continue
    return ["struct", ["u8"]]


def _nested_ok(spec: Spec) -> bool:
    """Explicit extents of nested delimited members must admit the inner type."""
    from .oracle import layout as _L

    if isinstance(spec, str):
        return True
    if spec[0] == "delim":
        if len(spec) > 2 and spec[2] is not None and spec[2] < _L.interval(spec[1], {})[1]:
            return False
        return _nested_ok(spec[1])
    if spec[0] in ("farr", "varr"):
        return _nested_ok(spec[1])
    return all(_nested_ok(f) for f in spec[1])


def random_shapes(seed: int, n: int, depth: int = 2) -> typing.List[Spec]:
    import random

    rnd = random.Random(seed * 7919 + 13)
    out = []  # type: typing.List[Spec]
    while len(out) < n:
        c = random_shape(rnd, depth)
        if c not in out:
            out.append(c)
    return out


# ------------------------------------------------------------------------------------------------------------------
# specs -> DSDL text (one in-memory definition per composite), for harnesses that go through the reader


class Unsupported(Exception):
    pass


def prim_text(spec: str) -> str:
    if spec in ("bool", "byte", "utf8") or spec.startswith("void"):
        return spec
    if spec.startswith("tu"):
        return "truncated uint" + spec[2:]
    if spec.startswith("tf"):
        return "truncated float" + spec[2:]
    if spec.startswith("u"):
        return "uint" + spec[1:]
    if spec.startswith("i"):
        return "int" + spec[1:]
    if spec.startswith("f"):
        return "float" + spec[1:]
    raise ValueError(spec)


def to_definitions(spec: Spec, root_name: str = "ns.Root", extra_lines: typing.Optional[typing.Mapping[int, typing.Sequence[str]]] = None,
                   prefix: str = "N") -> typing.Tuple[str, typing.List[typing.Tuple[str, str]]]:
    """
    Renders a composite spec as DSDL: returns (text of the root definition, [(full name, text) of nested composites]).
    extra_lines[i] are inserted before field i of the ROOT (key len(fields) = after the last field).
    """
    deps = []  # type: typing.List[typing.Tuple[str, str]]
    counter = [0]

    def type_text(s: Spec) -> str:
        if isinstance(s, str):
            return prim_text(s)
        if s[0] in ("farr", "varr"):
            if not isinstance(s[1], str) and s[1][0] in ("farr", "varr"):
                raise Unsupported("array of arrays has no DSDL spelling")
            return "%s[%s%s]" % (type_text(s[1]), "" if s[0] == "farr" else "<=", s[2])
        counter[0] += 1
        name = "ns.%s%d" % (prefix, counter[0])
        deps.append((name, body(s, None)))
        return name + ".1.0"

    def body(s: Spec, extra: typing.Optional[typing.Mapping[int, typing.Sequence[str]]]) -> str:
        ext = None
        if s[0] == "delim":
            ext = s[2] if len(s) > 2 and s[2] is not None else "auto"
            s = s[1]
        lines = ["@union"] if s[0] == "union" else []
        for i, f in enumerate(s[1]):
            lines += list((extra or {}).get(i, []))
            if isinstance(f, str) and f.startswith("void"):
                lines.append(f)
            else:
                lines.append("%s f%d" % (type_text(f), i))
        lines += list((extra or {}).get(len(s[1]), []))
        if ext is None:
            lines.append("@sealed")
        elif ext == "auto":
            lines.append("@extent _offset_.max + (8 - _offset_.max % 8) % 8")
        else:
            lines.append("@extent %s" % ext)
        return "\n".join(lines) + "\n"

    root = body(spec, extra_lines)
    _ = root_name
    return root, deps
