#!/bin/sh
# Build the overlay venv used by every check.  Offline: wheels come from /opt/veriftools/wheels.
# VERIF_VENV / VERIF_REPO override the locations (used to run a check against a snapshot of the repository).
set -e
cd "$(dirname "$0")"
VENV="${VERIF_VENV:-/verif/.venv}"
REPO_DIR="${VERIF_REPO:-/repo}"
if [ -x "$VENV/bin/python" ] && "$VENV/bin/python" -c "import crosshair, z3, jsonschema, pydsdl, sys; sys.exit(0 if pydsdl.__file__.startswith('$REPO_DIR/') else 1)" 2>/dev/null; then
    exit 0
fi
rm -rf "$VENV"
/venv/bin/python -m venv "$VENV"
SP=$("$VENV/bin/python" -c "import sysconfig; print(sysconfig.get_paths()['purelib'])")
# the repository under test first (the editable install of /venv points at /repo)
printf '%s\n%s\n' "$REPO_DIR" "/venv/lib/python3.12/site-packages" > "$SP/verif_overlay.pth"
PIP_NO_INDEX=1 "$VENV/bin/pip" install -q --no-index --find-links /opt/veriftools/wheels \
    crosshair-tool z3-solver cvc5 jsonschema >/dev/null
"$VENV/bin/python" -c "import crosshair, z3, jsonschema, pydsdl; assert pydsdl.__file__.startswith('$REPO_DIR/'), pydsdl.__file__"
