#!/bin/sh
# Build the overlay venv used by every check.  Offline: wheels come from /opt/veriftools/wheels.
set -e
cd "$(dirname "$0")"
VENV=/verif/.venv
if [ -x "$VENV/bin/python" ] && "$VENV/bin/python" -c "import crosshair, z3, jsonschema, pydsdl" 2>/dev/null; then
    exit 0
fi
rm -rf "$VENV"
/venv/bin/python -m venv "$VENV"
SP=$("$VENV/bin/python" -c "import sysconfig; print(sysconfig.get_paths()['purelib'])")
printf '%s\n%s\n' "/venv/lib/python3.12/site-packages" "/repo" > "$SP/verif_overlay.pth"
PIP_NO_INDEX=1 "$VENV/bin/pip" install -q --no-index --find-links /opt/veriftools/wheels \
    crosshair-tool z3-solver cvc5 jsonschema >/dev/null
"$VENV/bin/python" -c "import crosshair, z3, jsonschema, pydsdl; assert pydsdl.__file__.startswith('/repo/'), pydsdl.__file__"
